#!/bin/bash
# run_seeded.sh <PROP> <k> [check-prop]: applies seeded change /verif/seeded/<PROP>-<k>/patch.diff to /repo,
# runs the check of the property, records the outcome in seeded/<PROP>-<k>/result.txt, reverts /repo.
P=$1; K=$2; CP=${3:-$P}; D=/verif/seeded/$P-$K
cd /repo && git diff --quiet || { echo "/repo not clean"; exit 9; }
git -C /repo apply $D/patch.diff || { echo "$P-$K: patch does not apply" | tee $D/result.txt; exit 8; }
cd /verif && ./check $CP > $D/check.out 2>&1; rc=$?
git -C /repo checkout -- .
{ echo "check=$CP exit=$rc"; grep "^VIOLATION\|^KNOWN-FINDING" $D/check.out | head -5; grep "INCONCLUSIVE" $D/check.out | head -3; } > $D/result.txt
grep -v "^pkg\|^format\|^internal\|^running" $D/check.out | tail -5 > $D/check.tail; rm -f $D/check.out
echo "$P-$K: $(head -2 $D/result.txt | tr '\n' ' ')"
