#!/usr/bin/env python3
"""Regenerates MANIFEST.json from harness/registry.py (claimed properties) and the not-applicable table below."""
import json, os, sys
VERIF = os.path.dirname(os.path.abspath(__file__))
sys.path.insert(0, os.path.join(VERIF, "harness"))
import registry

NA = {
 "C07": "subject is the gojq byte-code VM running jq-text preludes over the space of jq programs; no bounded Go kernel whose SMT encoding decides it (DESIGN §5 C07)",
 "C11": "parse/print/parse round trip lives in a generated LR parser and reflective marshalling in the gojq dependency, rewriting is jq text; not encodable by the SSA executor (DESIGN §5 C11)",
 "C17": "argument parsing, input loop and exit-status bookkeeping are jq text executed by the gojq VM; the Go remainder does not decide the property (DESIGN §5 C17)",
}
PENDING = "check under construction in this session (planned in DESIGN §5)"
ALL = ["C%02d" % i for i in range(1, 21)]

LEVEL_TEXT = {
 "C01": "bounded: for every buffer content, alignment, length and operation argument within the stated bounds the real readers/writers return the reference bits (solver unsat per path); stateful readers by one inductive step from an arbitrary valid state plus bounded histories; nothing is claimed outside the bounds",
 "C02": "bounded: every scalar reader equals its mathematical definition for every buffer content at every bit alignment within the stated widths; all generated methods enumerated from the current tree",
}

def main():
    checks = []
    for pid in ALL:
        if pid not in registry.PROPS:
            continue
        spec = registry.PROPS[pid]
        checks.append({
            "property_id": pid,
            "quick_cmd": "./check %s --tier quick" % pid,
            "thorough_cmd": "./check %s --tier thorough" % pid,
            "evidence_file": "/verif/evidence/%s.json" % pid,
            "replay_cmd_template": "./check %s --replay {path}" % pid,
            "engine": "gosym",
            "technique": spec.get("technique", "bounded symbolic execution of the real Go SSA; an SMT solver (z3) decides every branch, runtime-fault check and assertion; counterexamples replayed natively"),
            "level_claimed": {"category": spec.get("level", "model_checking"),
                              "text": spec.get("level_text", LEVEL_TEXT.get(pid, spec.get("explanation", ""))),
                              "design_ref": "DESIGN.md §5 " + pid},
            "level_note": spec.get("level_note", "trusted: go/ssa lowering, the engine's instruction semantics, intrinsics and stubs (listed in the evidence file), z3; bounds per harness in the evidence file; inputs outside the bounds are outside the claim"),
        })
    na = []
    for pid in ALL:
        if pid in registry.PROPS:
            continue
        na.append({"property_id": pid, "reason": NA.get(pid, registry.NOT_REACHED.get(pid, PENDING) if hasattr(registry, "NOT_REACHED") else PENDING)})
    man = {
        "version": 1,
        "setup_cmd": "cd /verif/engine && GOFLAGS=-mod=mod GOPROXY=off GOSUMDB=off GOTOOLCHAIN=local go build -o /verif/bin/gosym ./cmd/gosym",
        "hooks": {
            "guard": "verif",
            "enable": "no hooks: harnesses and the vrt runtime are injected with go/packages overlays (engine) and go test -overlay (native replay); nothing in /repo is built with a tag",
            "baseline_off_cmd": "cd /repo && go test -mod=mod -json -vet=off -count=1 -timeout 25m ./...",
            "source_commits": [],
            "add_only": True,
        },
        "engines": [{"name": "gosym", "path": "/verif/engine", "serves_properties": [c["property_id"] for c in checks],
                     "kind_free_text": "bounded symbolic execution: concolic fork of golang.org/x/tools/go/ssa/interp (v0.29.0) executing the SSA of the real fq functions with symbolic bit-vector/FP inputs; every branch, runtime-fault check and assertion is decided by z3 5.1.0 over SMT-LIB2; DFS by re-execution over 16 worker processes; counterexamples replayed natively with go test -overlay"}],
        "checks": checks,
        "not_applicable": na,
        "notes": "fix: commits in /repo repair genuine defects found by these checks (listed in /verif/known-findings.txt as fixed:). Exit status 2 of a check means inconclusive (never success).",
    }
    json.dump(man, open(os.path.join(VERIF, "MANIFEST.json"), "w"), indent=1)

main()
