package columnwriter

import (
	"bytes"

	vrt "github.com/wader/fq/internal/zzvrt"
)

// VerifColumnAlign: a row of [column of width W | bar | last column]: whatever
// the width (including the hex column widths 3*line_bytes-1 of wide dumps) and
// the length of the cell text, the bar is at offset W and the last column
// starts right behind it, on every line of the row.
func VerifColumnAlign() {
	W := []int{0, 1, 2, 5, 47, 79, 80, 81, 83, 95, 159, 160, 161, 191, 200}[vrt.Choice("width", 15)]
	l0 := vrt.IntRange("len0", 0, 3)
	l1 := vrt.IntRange("len1", 0, 3)
	c0 := &MultiLineColumn{Width: W}
	c2 := &MultiLineColumn{Width: -1}
	var out bytes.Buffer
	w := New(&out, c0, BarColumn("|"), c2)
	c0.Write([]byte("abc"[:l0] + "\n" + "xyz"[:l1] + "\n"))
	c2.Write([]byte("L0\nL1\n"))
	vrt.Assert(w.Flush() == nil, "column writer: flush succeeds")
	lines := bytes.Split(out.Bytes(), []byte{'\n'})
	vrt.Assert(len(lines) == 3 && len(lines[2]) == 0, "column writer: two rows")
	for i, ln := range lines[:2] {
		cell := "abc"[:l0]
		if i == 1 {
			cell = "xyz"[:l1]
		}
		if len(cell) > W {
			cell = cell[:W]
		}
		vrt.Assert(len(ln) == W+3, "column writer: every row is width + bar + last column wide")
		if len(ln) != W+3 {
			return
		}
		vrt.Assert(string(ln[:len(cell)]) == cell, "column writer: cell text at the start of the cell")
		for j := len(cell); j < W; j++ {
			vrt.Assert(ln[j] == ' ', "column writer: padding is blank")
		}
		vrt.Assert(ln[W] == '|' && ln[W+1] == 'L' && ln[W+2] == byte('0'+i), "column writer: the next column starts at offset width")
	}
}
