package bitiox

import (
	"bytes"
	"io"

	vrt "github.com/wader/fq/internal/zzvrt"
	"github.com/wader/fq/pkg/bitio"
)

// VerifZeroStep: the zero source of L bits: every read yields zero bits, counts,
// EOF and seeks follow the reference contract.
func VerifZeroStep() {
	L := vrt.Int64("L")
	vrt.Assume(0 <= L)
	vrt.Assume(L <= 40)
	pos := vrt.Int64("pos")
	vrt.Assume(0 <= pos)
	vrt.Assume(pos <= L)
	z := &ZeroReadAtSeeker{pos: pos, nBits: L}
	if vrt.Choice("op", 2) == 0 {
		n, at := vrt.Int64("n"), vrt.Int64("at")
		vrt.Assume(0 <= n)
		vrt.Assume(n <= 20)
		vrt.Assume(0 <= at)
		vrt.Assume(at <= L+3)
		p := vrt.Bytes("garbage", 3)
		k, err := z.ReadBitsAt(p, n, at)
		k = vrt.Split(k)
		avail := vrt.IteI64(L-at > 0, L-at, 0)
		vrt.Assert(k >= 0 && k <= n && k <= avail, "ZeroReadAtSeeker.ReadBitsAt: count within request and source")
		var or uint64
		for i := int64(0); i < k; i++ {
			or |= bitio.ZZRefBit(p, i)
		}
		vrt.Assert(or == 0, "ZeroReadAtSeeker.ReadBitsAt: bits are zero")
		if at < L {
			vrt.Assert(err == nil || err == io.EOF, "ZeroReadAtSeeker.ReadBitsAt: nil or EOF inside")
			if n > 0 {
				vrt.Assert(k > 0 || err != nil, "ZeroReadAtSeeker.ReadBitsAt: progress")
			}
			if err == io.EOF {
				vrt.Assert(at+k == L, "ZeroReadAtSeeker.ReadBitsAt: EOF only at the end")
			}
		} else {
			vrt.Assert(k == 0, "ZeroReadAtSeeker.ReadBitsAt: nothing past the end")
			if n > 0 {
				vrt.Assert(err != nil, "ZeroReadAtSeeker.ReadBitsAt: error past the end")
			}
		}
		return
	}
	whence := vrt.Choice("whence", 3)
	so := vrt.Int64("so")
	vrt.Assume(-50 <= so)
	vrt.Assume(so <= 50)
	np, err := z.SeekBits(so, whence)
	var t int64
	switch whence {
	case io.SeekStart:
		t = so
	case io.SeekCurrent:
		t = pos + so
	case io.SeekEnd:
		t = L + so
	}
	if t >= 0 && t <= L {
		vrt.Assert(err == nil && np == t && z.pos == t, "ZeroReadAtSeeker.SeekBits inside: succeeds, returns and sets the target")
	}
	if t < 0 {
		vrt.Assert(err != nil, "ZeroReadAtSeeker.SeekBits before start fails")
	}
	if err != nil {
		vrt.Assert(z.pos == pos, "ZeroReadAtSeeker.SeekBits failure leaves the cursor")
	}
}

// VerifLenRange: Len reports the length and restores the cursor; Range accepts
// exactly the windows inside the source and yields their bits.
func VerifLenRange() {
	const N = 3
	bits := vrt.Int64("bits")
	vrt.Assume(0 <= bits)
	vrt.Assume(bits <= 8*N)
	src := bitio.ZZNewRefSrc("d", N, bits)
	sp := vrt.Int64("pos")
	vrt.Assume(0 <= sp)
	vrt.Assume(sp <= bits)
	src.ZZSetPos(sp)
	l, err := Len(src)
	vrt.Assert(err == nil && l == bits, "bitiox.Len is the bit length")
	vrt.Assert(src.ZZPos() == sp, "bitiox.Len restores the cursor")
	first, n := vrt.Int64("first"), vrt.Int64("n")
	vrt.Assume(-2 <= first)
	vrt.Assume(first <= 8*N+2)
	vrt.Assume(-2 <= n)
	vrt.Assume(n <= 8*N+2)
	r, err := Range(src, first, n)
	inside := first >= 0 && n >= 0 && first+n <= bits
	if !inside && first >= 0 {
		vrt.Assert(err != nil, "bitiox.Range rejects windows outside the source")
		return
	}
	if err != nil {
		vrt.Assert(!inside, "bitiox.Range accepts windows inside the source")
		return
	}
	if first < 0 {
		return // negative offsets are outside the claim (as for io.ReaderAt)
	}
	rl, err := Len(r)
	vrt.Assert(err == nil && rl == n, "bitiox.Range length is the window length")
	at := vrt.Int64("at")
	vrt.Assume(0 <= at)
	vrt.Assume(at < n)
	p := make([]byte, 1)
	k, _ := r.ReadBitsAt(p, 1, at)
	vrt.Assert(k == 1, "bitiox.Range reads inside the window")
	idx := min(first+at, 8*N-1)
	vrt.Assert(bitio.ZZRefBit(p, 0) == bitio.ZZRefBit(src.ZZData(), idx), "bitiox.Range bit = source bit at first+at")
}

// VerifCopyBits: copying any bit source to a byte writer writes its bits
// followed by zero padding to a byte boundary, once.
func VerifCopyBits() {
	const N = 3
	data := vrt.Bytes("d", N)
	L := int64(vrt.IntRange("bits", 0, 8*N))
	first := int64(vrt.IntRange("first", 0, 7))
	vrt.Assume(first+L <= 8*N)
	var out bytes.Buffer
	br := bitio.NewBitReader(data, -1)
	sr := bitio.NewSectionReader(br, first, L)
	n, err := CopyBitsBuffer(&out, sr, make([]byte, vrt.IntRange("bufsize", 1, 2)))
	vrt.Assert(err == nil, "CopyBits succeeds")
	got := out.Bytes()
	vrt.Assert(int64(len(got)) == bitio.BitsByteCount(L) && n == int64(len(got)), "CopyBits writes ceil(bits/8) bytes")
	var diff uint64
	for i := int64(0); i < int64(len(got))*8; i++ {
		var want uint64
		if i < L {
			want = bitio.ZZRefBit(data, first+i)
		}
		diff |= bitio.ZZRefBit(got, i) ^ want
	}
	vrt.Assert(diff == 0, "CopyBits output = source bits, zero padded")
}

// VerifComposition: the reader stack that binaries and nested decodes build
// (zero padding ++ section of a section over the byte reader) yields the
// reference bits at every alignment.
func VerifComposition() {
	const N = 4
	data := vrt.Bytes("d", N)
	pad := int64(vrt.IntRange("pad", 0, 7))
	first := int64(vrt.IntRange("first", 0, 9))
	L := int64(vrt.IntRange("len", 0, 14))
	base := bitio.NewBitReader(data, -1)
	inner := bitio.NewSectionReader(base, 3, 8*N-3) // nested window at a non-aligned position
	sec := bitio.NewSectionReader(inner, first, L)
	zr := NewZeroAtSeeker(pad)
	m, err := bitio.NewMultiReader(zr, sec)
	vrt.Assert(err == nil, "composition: NewMultiReader succeeds")
	total := pad + L
	whole, err := bitio.CloneReaderAtSeeker(m)
	vrt.Assert(err == nil, "composition: clone succeeds")
	p := make([]byte, 4)
	k, err := bitio.ReadAtFull(whole, p, total, 0)
	vrt.Assert(err == nil && k == total, "composition: ReadAtFull reads everything")
	var diff uint64
	for i := int64(0); i < total; i++ {
		var want uint64
		if i >= pad {
			want = bitio.ZZRefBit(data, 3+first+(i-pad))
		}
		diff |= bitio.ZZRefBit(p, i) ^ want
	}
	vrt.Assert(diff == 0, "composition: zero padding then the section bits")
	// one bit more is an error, never data
	_, err = bitio.ReadAtFull(whole, make([]byte, 4), total+1, 0)
	vrt.Assert(err != nil, "composition: reading past the end fails")
}
