package ctxstack

import (
	"context"

	vrt "github.com/wader/fq/internal/zzvrt"
)

// model of the specification: a stack of evaluation contexts; an interrupt
// cancels the innermost live one only; popping level i cancels i and everything
// above it and removes them; stop cancels everything.
type zzModel struct {
	cancelled []bool // per pushed context, in push order
	live      []int  // indices of contexts on the stack, bottom to top
}

func (m *zzModel) push() int {
	// a context derived from a cancelled parent is born cancelled
	inherited := false
	if n := len(m.live); n > 0 {
		inherited = m.cancelled[m.live[n-1]]
	}
	m.cancelled = append(m.cancelled, inherited)
	m.live = append(m.live, len(m.cancelled)-1)
	return len(m.cancelled) - 1
}

func (m *zzModel) interrupt() {
	if len(m.live) > 0 {
		m.cancelled[m.live[len(m.live)-1]] = true
	}
}

func (m *zzModel) pop(idx int) {
	pos := -1
	for i, l := range m.live {
		if l == idx {
			pos = i
		}
	}
	if pos < 0 {
		m.cancelled[idx] = true
		return
	}
	for _, l := range m.live[pos:] {
		m.cancelled[l] = true
	}
	m.live = m.live[:pos]
}

func (m *zzModel) stop() {
	for i := range m.cancelled {
		m.cancelled[i] = true
	}
}

// zzRun drives the real Stack (with its trigger goroutine, shaped like the one
// interp.New installs: a blocking select on the stop channel and an interrupt
// channel) through a sequence of operations chosen by the explorer and compares
// the cancellation state of every context with the model after each operation
// once the trigger goroutine has quiesced.
func zzRun(ops int, maxPreempt int, waitAfterInterrupt bool) {
	vrt.Threads(maxPreempt, "internal/ctxstack")
	intr := make(chan struct{}, 4)
	s := New(func(stopCh chan struct{}) {
		select {
		case <-stopCh:
		case <-intr:
		}
	})
	m := &zzModel{}
	var ctxs []context.Context
	var pops []func()
	var popped []bool
	stopped := false
	// exposed[i]: context i was the innermost one at some moment at which an interrupt
	// had already been sent (so a racing trigger goroutine may legitimately cancel it)
	var exposed []bool
	sent := 0
	expose := func() {
		if n := len(m.live); n > 0 && sent > 0 {
			exposed[m.live[n-1]] = true
		}
	}
	check := func(when string) {
		for i, c := range ctxs {
			vrt.Assert((c.Err() != nil) == m.cancelled[i], "ctxstack: after "+when+" exactly the contexts the specification cancels are cancelled")
		}
	}
	for k := 0; k < ops && !stopped; k++ {
		switch vrt.Choice("op", 4) {
		case 0: // push (nested evaluation starts)
			if len(ctxs) >= 3 {
				continue
			}
			parent := context.Background()
			if n := len(m.live); n > 0 {
				parent = ctxs[m.live[n-1]]
			}
			c, pop := s.Push(parent)
			ctxs = append(ctxs, c)
			pops = append(pops, pop)
			popped = append(popped, false)
			exposed = append(exposed, false)
			m.push()
			expose()
			if waitAfterInterrupt {
				vrt.Quiesce()
				check("push")
			}
		case 1: // the innermost evaluation ends
			n := len(m.live)
			if n == 0 {
				continue
			}
			idx := m.live[n-1]
			pops[idx]()
			popped[idx] = true
			m.pop(idx)
			expose()
			if waitAfterInterrupt {
				vrt.Quiesce()
				check("pop")
			}
		case 2: // interrupt
			sent++
			expose()
			intr <- struct{}{}
			if waitAfterInterrupt {
				vrt.Quiesce()
				m.interrupt()
				check("interrupt")
			}
		case 3: // stop the interpreter
			s.Stop()
			stopped = true
			m.stop()
			vrt.Quiesce()
			check("stop")
		}
	}
	if !waitAfterInterrupt {
		// racing interrupts: no panic, no deadlock, no data race; enclosing levels that were
		// never the innermost when an interrupt could be delivered keep their contexts
		vrt.Quiesce()
		if !stopped {
			// walking up from the bottom: a live context none of whose ancestors (nor itself)
			// was ever exposed to an interrupt must still be live
			safe := true
			for _, idx := range m.live {
				if exposed[idx] {
					safe = false
				}
				if safe {
					vrt.Assert(ctxs[idx].Err() == nil, "ctxstack: an interrupt never cancels a level that was not the innermost one when it could be delivered")
				}
			}
		}
	}
}

// VerifCtxStackSequential: every sequence of up to 4 operations, the trigger
// goroutine quiescing after each one.
func VerifCtxStackSequential() { zzRun(4, 0, true) }

// VerifCtxStackSequentialLong: thorough tier, 6 operations.
func VerifCtxStackSequentialLong() { zzRun(6, 0, true) }

// VerifCtxStackInterleaved: up to 3 operations racing with the trigger
// goroutine, every schedule with at most 1 pre-emption (2 in the thorough tier) at the loads/stores of
// ctxstack and the channel/mutex operations: no panic, no deadlock, no data race.
func VerifCtxStackInterleaved() { zzRun(3, 1, false) }

// VerifCtxStackInterleaved2: thorough tier, 2 pre-emptions.
func VerifCtxStackInterleaved2() { zzRun(3, 2, false) }
