package lazyre

import (
	"regexp"

	vrt "github.com/wader/fq/internal/zzvrt"
)

// VerifLazyREConcurrent: two goroutines reach the lazily compiled regexp at the
// same time (first probe decodes running concurrently): every interleaving
// with up to 2 pre-emptions at the loads/stores of lazyre and its lock
// operations is free of data races, deadlocks and panics, and both get the
// same compiled regexp.
func VerifLazyREConcurrent() {
	vrt.Threads(2, "internal/lazyre")
	lr := New(`^a`)
	res := make(chan *regexp.Regexp, 2)
	go func() { res <- lr.Must() }()
	go func() { res <- lr.Must() }()
	a := <-res
	b := <-res
	vrt.Assert(a != nil && a == b, "lazyre: concurrent first uses get the same compiled regexp")
	vrt.Assert(lr.Must() == a, "lazyre: later uses get the same compiled regexp")
}
