package aheadreadseeker

import (
	"bytes"
	"io"

	vrt "github.com/wader/fq/internal/zzvrt"
)

// model of an io.ReadSeeker over data: position only.
type model struct {
	data []byte
	pos  int64
}

// doOp applies one symbolic operation to the real reader and to the model and
// asserts that they agree.
func doOp(who string, r io.ReadSeeker, m *model, maxRead int) {
	L := int64(len(m.data))
	if vrt.Choice("op", 2) == 0 {
		sz := vrt.IntRange("size", 0, maxRead)
		p := make([]byte, sz)
		n, err := r.Read(p)
		avail := L - m.pos
		if avail < 0 {
			avail = 0
		}
		vrt.Assert(n >= 0 && int64(n) <= avail && n <= sz, who+".Read: count within request and source")
		if int64(n) > avail || n < 0 || n > sz {
			return
		}
		var diff byte
		for i := 0; i < n; i++ {
			diff |= p[i] ^ m.data[m.pos+int64(i)]
		}
		vrt.Assert(diff == 0, who+".Read: bytes are the source bytes at the cursor")
		if sz > 0 {
			vrt.Assert(n > 0 || err != nil, who+".Read: progress")
			if avail == 0 {
				vrt.Assert(n == 0 && err == io.EOF, who+".Read: EOF at the end")
			} else {
				vrt.Assert(err == nil || err == io.EOF || err == io.ErrUnexpectedEOF, who+".Read: only end-of-file errors")
			}
		}
		m.pos += int64(n)
		return
	}
	whence := vrt.Choice("whence", 3)
	off := int64(vrt.IntRange("off", -int(L)-1, int(L)+1))
	var t int64
	switch whence {
	case io.SeekStart:
		t = off
	case io.SeekCurrent:
		t = m.pos + off
	case io.SeekEnd:
		t = L + off
	}
	pos, err := r.Seek(off, whence)
	if t < 0 {
		vrt.Assert(err != nil, who+".Seek before start fails")
		return
	}
	vrt.Assert(err == nil, who+".Seek to a non-negative position succeeds")
	vrt.Assert(pos == t, who+".Seek returns the target")
	m.pos = t
}

// VerifAheadHistory: every sequence of 3 reads/seeks through the public API
// behaves like a plain reader over the same bytes.
func VerifAheadHistory() { verifAheadHistory(4, 3, 2) }

// VerifAheadHistory4: thorough tier, 4 operations.
func VerifAheadHistory4() { verifAheadHistory(5, 4, 2) }

func verifAheadHistory(N int, ops int, maxRead int) {
	data := vrt.Bytes("d", N)
	minRead := 1 << uint(vrt.Choice("minReadLog2", 3)) // 1,2,4
	r := New(bytes.NewReader(data), minRead)
	m := &model{data: data}
	for i := 0; i < ops; i++ {
		doOp("aheadreadseeker", r, m, maxRead)
	}
}

// VerifAheadStep: one operation from an arbitrary state satisfying the
// representation invariant keeps the invariant and agrees with the model.
// Invariant: cache[0:cacheUsed] = data[cacheOffset:cacheOffset+cacheUsed];
// underlying position = cacheOffset+cacheUsed if cacheUsed>0 else offset.
func VerifAheadStep() {
	const N = 6
	data := vrt.Bytes("d", N)
	minRead := 1 << uint(vrt.Choice("minReadLog2", 3))
	cacheOffset := int64(vrt.IntRange("cacheOffset", 0, N))
	cacheUsed := vrt.IntRange("cacheUsed", 0, 4)
	vrt.Assume(cacheOffset+int64(cacheUsed) <= N)
	offset := int64(vrt.IntRange("offset", 0, N+1))
	if cacheUsed > 0 {
		// reachable states only: the cursor is inside the cached block or just behind it
		vrt.Assume(cacheOffset <= offset)
		vrt.Assume(offset <= cacheOffset+int64(cacheUsed))
	}
	br := bytes.NewReader(data)
	under := offset
	if cacheUsed > 0 {
		under = cacheOffset + int64(cacheUsed)
	}
	br.Seek(under, io.SeekStart)
	cache := make([]byte, max(cacheUsed, minRead))
	copy(cache, data[cacheOffset:cacheOffset+int64(cacheUsed)])
	r := &Reader{rs: br, minRead: minRead, offset: offset, cache: cache, cacheOffset: cacheOffset, cacheUsed: cacheUsed}
	m := &model{data: data, pos: offset}
	doOp("aheadreadseeker(step)", r, m, 3)
	vrt.Assert(r.offset == m.pos, "aheadreadseeker invariant: logical offset")
	var diff byte
	for i := 0; i < r.cacheUsed; i++ {
		diff |= r.cache[i] ^ data[r.cacheOffset+int64(i)]
	}
	vrt.Assert(diff == 0, "aheadreadseeker invariant: cache mirrors the source")
	up, _ := br.Seek(0, io.SeekCurrent)
	want := r.offset
	if r.cacheUsed > 0 {
		want = r.cacheOffset + int64(r.cacheUsed)
	}
	vrt.Assert(up == want, "aheadreadseeker invariant: underlying position is where the next cache miss must read")
}
