package asciiwriter

import (
	"bytes"

	vrt "github.com/wader/fq/internal/zzvrt"
)

func VerifASCIIWriter() { verifASCIIWriter(5) }

// VerifSafeASCII: the character shown for a byte is the byte itself when it is
// printable ASCII and a dot otherwise, always exactly one character.
func VerifSafeASCII() {
	c := vrt.Uint8("c")
	s := SafeASCII(c)
	vrt.Assert(len(s) == 1, "SafeASCII yields one character")
	if c >= 32 && c <= 126 {
		vrt.Assert(s[0] == c, "SafeASCII keeps printable characters")
	} else {
		vrt.Assert(s[0] == '.', "SafeASCII replaces everything else by a dot")
	}
}

// VerifASCIIWriterWide: thorough tier, widths up to 16.
func VerifASCIIWriterWide() { verifASCIIWriter(16) }

func verifASCIIWriter(maxWidth int) {
	width := vrt.IntRange("width", 1, maxWidth)
	start := vrt.IntRange("start", 0, width-1)
	n := vrt.IntRange("n", 0, 2*width+1)
	data := vrt.Bytes("data", 2*maxWidth+1)[:n]
	c1 := vrt.IntRange("cut1", 0, n)
	c2 := vrt.IntRange("cut2", c1, n)
	var out bytes.Buffer
	// the layout does not depend on the per-byte rendering (checked on its own above):
	// a one-character identity rendering keeps the data symbolic without a fork per byte
	w := New(&out, width, start, func(b byte) string { return string([]byte{b}) })
	for _, chunk := range [][]byte{data[:c1], data[c1:c2], data[c2:]} {
		if len(chunk) == 0 && vrt.Choice("skipEmpty", 2) == 1 {
			continue
		}
		k, err := w.Write(chunk)
		vrt.Assert(err == nil && k == len(chunk), "asciiwriter.Write accepts everything")
	}
	got := out.Bytes()
	if n == 0 {
		return
	}
	rowLen := width + 1
	last := start + n - 1
	wantLen := (last/width)*rowLen + last%width + 1
	vrt.Assert(len(got) == wantLen, "ascii column: total length = cells and newlines of the layout, nothing else")
	if len(got) != wantLen {
		return
	}
	var bad byte
	for i, b := range data {
		off := start + i
		idx := (off/width)*rowLen + off%width
		bad |= got[idx] ^ b
	}
	vrt.Assert(bad == 0, "ascii column: the cell of an offset holds the character rendered for that byte")
	ok := true
	for idx := 0; idx < wantLen; idx++ {
		col := idx % rowLen
		off := (idx/rowLen)*width + col
		switch {
		case col == width:
			ok = ok && got[idx] == '\n'
		case off < start:
			ok = ok && got[idx] == ' '
		}
	}
	vrt.Assert(ok, "ascii column: padding cells are blank, rows end with one newline")
}
