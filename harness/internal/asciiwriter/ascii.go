package asciiwriter

import (
	"bytes"

	vrt "github.com/wader/fq/internal/zzvrt"
)

func VerifASCIIWriter() { verifASCIIWriter(6) }

// VerifASCIIWriterWide: thorough tier, widths up to 16.
func VerifASCIIWriterWide() { verifASCIIWriter(16) }

func verifASCIIWriter(maxWidth int) {
	width := vrt.IntRange("width", 1, maxWidth)
	start := vrt.IntRange("start", 0, width-1)
	n := vrt.IntRange("n", 0, 2*width+1)
	data := vrt.Bytes("data", 2*maxWidth+1)[:n]
	c1 := vrt.IntRange("cut1", 0, n)
	c2 := vrt.IntRange("cut2", c1, n)
	var out bytes.Buffer
	w := New(&out, width, start, SafeASCII)
	for _, chunk := range [][]byte{data[:c1], data[c1:c2], data[c2:]} {
		if len(chunk) == 0 && vrt.Choice("skipEmpty", 2) == 1 {
			continue
		}
		k, err := w.Write(chunk)
		vrt.Assert(err == nil && k == len(chunk), "asciiwriter.Write accepts everything")
	}
	got := out.Bytes()
	if n == 0 {
		return
	}
	rowLen := width + 1
	last := start + n - 1
	wantLen := (last/width)*rowLen + last%width + 1
	vrt.Assert(len(got) == wantLen, "ascii column: total length = cells and newlines of the layout, nothing else")
	if len(got) != wantLen {
		return
	}
	var bad byte
	for i, b := range data {
		off := start + i
		idx := (off/width)*rowLen + off%width
		want := b
		if b < 32 || b > 126 {
			want = '.'
		}
		bad |= got[idx] ^ want
	}
	vrt.Assert(bad == 0, "ascii column: the cell of an offset holds the printable character of that byte or a dot")
	ok := true
	for idx := 0; idx < wantLen; idx++ {
		col := idx % rowLen
		off := (idx/rowLen)*width + col
		switch {
		case col == width:
			ok = ok && got[idx] == '\n'
		case off < start:
			ok = ok && got[idx] == ' '
		}
	}
	vrt.Assert(ok, "ascii column: padding cells are blank, rows end with one newline")
}
