package hexpairwriter

import (
	"bytes"

	vrt "github.com/wader/fq/internal/zzvrt"
)

const zzDigits = "0123456789abcdef"

// VerifHexPairWriter: every byte written appears exactly once, as its two hex
// digits, in the cell (row, column) that its offset selects; padding cells and
// separators are exactly what the column layout requires — for every line
// width, start offset and split of the data over several Write calls.
func VerifHexPairWriter() { verifHexPairWriter(4) }

// VerifPair: the two characters shown for a byte are its hex digits.
func VerifPair() {
	c := vrt.Uint8("c")
	s := Pair(c)
	hi, lo := c>>4, c&15
	dh := byte(vrt.IteU64(hi < 10, uint64('0'+hi), uint64('a'+hi-10)))
	dl := byte(vrt.IteU64(lo < 10, uint64('0'+lo), uint64('a'+lo-10)))
	vrt.Assert(len(s) == 2 && s[0] == dh && s[1] == dl, "Pair = two lower-case hex digits of the byte")
}

// VerifHexPairWriterWide: thorough tier, widths up to 16.
func VerifHexPairWriterWide() { verifHexPairWriter(16) }

func verifHexPairWriter(maxWidth int) {
	width := vrt.IntRange("width", 1, maxWidth)
	start := vrt.IntRange("start", 0, width-1)
	n := vrt.IntRange("n", 0, 2*width+1)
	data := vrt.Bytes("data", 2*maxWidth+1)[:n]
	c1 := vrt.IntRange("cut1", 0, n)
	c2 := vrt.IntRange("cut2", c1, n)
	var out bytes.Buffer
	// layout check with an identity two-character rendering (Pair is checked on its own)
	w := New(&out, width, start, func(b byte) string { return string([]byte{b, ^b}) })
	for _, chunk := range [][]byte{data[:c1], data[c1:c2], data[c2:]} {
		if len(chunk) == 0 && vrt.Choice("skipEmpty", 2) == 1 {
			continue
		}
		k, err := w.Write(chunk)
		vrt.Assert(err == nil && k == len(chunk), "hexpairwriter.Write accepts everything")
	}
	got := out.Bytes()
	if n == 0 {
		return // nothing but padding is written; its shape is checked with the first data byte
	}
	// a full row is width cells of 2 characters, width-1 spaces and a newline
	rowLen := 3 * width
	last := start + n - 1
	wantLen := (last/width)*rowLen + (last%width)*3 + 2
	vrt.Assert(len(got) == wantLen, "hex dump: total length = cells and separators of the layout, nothing else")
	if len(got) != wantLen {
		return
	}
	var bad byte
	for i, b := range data {
		off := start + i
		idx := (off/width)*rowLen + (off%width)*3
		bad |= got[idx] ^ b
		bad |= got[idx+1] ^ ^b
	}
	vrt.Assert(bad == 0, "hex dump: the cell at (row, column) of an offset holds the two characters rendered for that byte")
	// everything that is not a data cell is padding or a separator
	ok := true
	for idx := 0; idx < wantLen; idx++ {
		col := idx % rowLen
		cell, within := col/3, col%3
		off := (idx/rowLen)*width + cell
		switch {
		case within == 2 && cell == width-1:
			ok = ok && got[idx] == '\n'
		case within == 2:
			ok = ok && got[idx] == ' '
		case off < start:
			ok = ok && got[idx] == ' '
		}
	}
	vrt.Assert(ok, "hex dump: padding cells are blank, cells are separated by one space, rows by one newline")
}
