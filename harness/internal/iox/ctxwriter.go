package iox

import (
	"bytes"
	"context"

	vrt "github.com/wader/fq/internal/zzvrt"
)

// VerifCtxWriter: output written after the evaluation was cancelled is
// refused; before, it passes through unchanged.
func VerifCtxWriter() {
	data := vrt.Bytes("data", 3)
	var out bytes.Buffer
	ctx, cancel := context.WithCancel(context.Background())
	w := CtxWriter{Writer: &out, Ctx: ctx}
	cancelFirst := vrt.Choice("cancelFirst", 2) == 1
	if cancelFirst {
		cancel()
	}
	n, err := w.Write(data)
	if cancelFirst {
		vrt.Assert(n == 0 && err != nil && out.Len() == 0, "CtxWriter: nothing is written after cancellation")
	} else {
		vrt.Assert(n == 3 && err == nil && bytes.Equal(out.Bytes(), data), "CtxWriter: passes data through while the context is live")
	}
	cancel()
	n, err = w.Write(data)
	vrt.Assert(n == 0 && err != nil, "CtxWriter: refuses output once cancelled")
	d := DiscardCtxWriter{Ctx: ctx}
	_, err = d.Write(data)
	vrt.Assert(err != nil, "DiscardCtxWriter: refuses output once cancelled")
}
