package mathx

import (
	vrt "github.com/wader/fq/internal/zzvrt"
)

// VerifTwosComplementZigZag: the integer helpers used when displaying values.
func VerifTwosComplementZigZag() {
	n := vrt.Uint64("n")
	nBits := vrt.IntRange("nBits", 1, 64)
	if nBits < 64 {
		vrt.Assume(n>>uint(nBits) == 0)
	}
	got := TwosComplement(nBits, n)
	var want int64
	if nBits == 64 {
		want = int64(n)
	} else if n>>uint(nBits-1)&1 == 1 {
		want = int64(n) - int64(1)<<uint(nBits)
	} else {
		want = int64(n)
	}
	vrt.Assert(got == want, "TwosComplement = value minus 2^n when the sign bit is set")
	z := ZigZag[uint64, int64](n)
	var zw int64
	if n&1 == 1 {
		zw = -int64(n>>1) - 1
	} else {
		zw = int64(n >> 1)
	}
	vrt.Assert(z == zw, "ZigZag decoding")
}
