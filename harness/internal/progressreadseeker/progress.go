package progressreadseeker

import (
	"bytes"
	"io"

	vrt "github.com/wader/fq/internal/zzvrt"
)

// VerifProgressHistory: the progress wrapper is a transparent pass-through for
// any 3 reads/seeks, never panics, and reports monotone progress <= total.
func VerifProgressHistory() { verifProgressHistory(2) }

// VerifProgressHistory3: thorough tier, 3 operations.
func VerifProgressHistory3() { verifProgressHistory(3) }

func verifProgressHistory(ops int) {
	const N = 5
	data := vrt.Bytes("d", N)
	precision := int64(vrt.IntRange("precision", 1, 4))
	totalSize := int64(vrt.IntRange("totalSize", 1, N+2)) // the file may have grown or shrunk since it was measured
	var last int64 = -1
	mono := true
	within := true
	r := New(bytes.NewReader(data), precision, totalSize, func(read, total int64) {
		if read < last {
			mono = false
		}
		if read > total || read < 0 {
			within = false
		}
		last = read
	})
	pos := int64(0)
	L := int64(N)
	for i := 0; i < ops; i++ {
		if vrt.Choice("op", 2) == 0 {
			sz := vrt.IntRange("size", 0, 3)
			p := make([]byte, sz)
			n, err := r.Read(p)
			avail := max(L-pos, 0)
			vrt.Assert(n >= 0 && int64(n) <= avail && n <= sz, "progressreadseeker.Read: count within request and source")
			var diff byte
			for j := 0; j < n; j++ {
				diff |= p[j] ^ data[pos+int64(j)]
			}
			vrt.Assert(diff == 0, "progressreadseeker.Read: bytes are the source bytes at the cursor")
			if sz > 0 && avail == 0 {
				vrt.Assert(n == 0 && err == io.EOF, "progressreadseeker.Read: EOF at the end")
			}
			if sz > 0 && avail > 0 {
				vrt.Assert(n > 0 && err == nil, "progressreadseeker.Read: progress")
			}
			pos += int64(n)
		} else {
			whence := vrt.Choice("whence", 3)
			off := int64(vrt.IntRange("off", -N-1, N+1))
			var t int64
			switch whence {
			case io.SeekStart:
				t = off
			case io.SeekCurrent:
				t = pos + off
			case io.SeekEnd:
				t = L + off
			}
			np, err := r.Seek(off, whence)
			if t < 0 {
				vrt.Assert(err != nil, "progressreadseeker.Seek before start fails")
				// position of the wrapped reader is unchanged on failure
				continue
			}
			vrt.Assert(err == nil && np == t, "progressreadseeker.Seek returns the target")
			pos = t
		}
	}
	vrt.Assert(mono, "progress callback is monotone")
	vrt.Assert(within, "progress callback never exceeds the total")
}
