package colorjson

import (
	"bytes"
	"math"
	"math/big"

	vrt "github.com/wader/fq/internal/zzvrt"
	"github.com/wader/gojq"
)

// The reference side of these harnesses is the real encoder of the embedded jq
// engine (gojq.Marshal, executed by the same symbolic executor): C07 says JSON
// text produced by fq (tojson, every JSON output line) is what the reference
// engine produces.

var zzFloats = []float64{0, math.Copysign(0, -1), 1, -1.5, 123.456, 1e-6, 9.99e-7, 1e-9, 1e-10, 1e21, 9.99e20, 1e22,
	math.NaN(), math.Inf(1), math.Inf(-1), math.MaxFloat64, -math.MaxFloat64, 5e-324, 1e100, 1e-100}

var zzKeys = []string{"", "a", "B", "aa", "\"", "\xff", "é"}

// indent widths: none, small, and such that depth*indent passes 16 (tabs) / 32 (spaces) / 64 / 96,
// the thresholds of writeIndentInternal's doubling loop
var zzIndents = []int{0, 1, 2, 7, 9, 16, 17, 33, 50}

var zzInts = []int{0, 1, -1, 9, 10, -10, math.MaxInt64, math.MinInt64, 4294967296}

func zzBig(k int) *big.Int {
	switch k {
	case 0:
		return new(big.Int).Lsh(big.NewInt(1), 64)
	case 1:
		return new(big.Int).Neg(new(big.Int).Lsh(big.NewInt(1), 70))
	default:
		v, _ := new(big.Int).SetString("123456789012345678901234567890", 10)
		return v
	}
}

func zzString(name string, max int) string {
	n := vrt.Choice(name+".len", max+1)
	return string(vrt.Bytes(name, n))
}

// zzScalar: one scalar JSON value; strings are fully symbolic byte strings
// (every escape class, DEL, invalid and overlong UTF-8, encoded surrogates).
func zzScalar(name string, strMax int) any {
	switch vrt.Choice(name+".kind", 6) {
	case 0:
		return nil
	case 1:
		return vrt.Choice(name+".bool", 2) == 1
	case 2:
		return zzInts[vrt.Choice(name+".int", len(zzInts))]
	case 3:
		return zzFloats[vrt.Choice(name+".float", len(zzFloats))]
	case 4:
		return zzBig(vrt.Choice(name+".big", 3))
	default:
		return zzString(name+".str", strMax)
	}
}

// zzSmall: element of a container: one representative per scalar kind plus a
// fully symbolic one-byte string (elements multiply the number of paths).
func zzSmall(name string) any {
	switch vrt.Choice(name+".kind", 6) {
	case 0:
		return nil
	case 1:
		return true
	case 2:
		return -10
	case 3:
		return 1e-9
	case 4:
		return zzBig(1)
	default:
		return zzString(name+".str", 1)
	}
}

func zzKey(name string) string { return zzKeys[vrt.Choice(name, len(zzKeys))] }

// zzValue: a scalar, or an array/object of up to two elements, an element being
// a small scalar or (nest) a one-element array/object of a small scalar.
// (object keys come from a list: the executor's maps need concrete keys; key text goes through
// the same encodeString as string values, which VerifEncodeString covers byte-symbolically)
func zzValue(name string, strMax int, nest bool) any {
	elem := func(n string) any {
		if nest {
			switch vrt.Choice(n+".nest", 3) {
			case 1:
				return []any{zzSmall(n + ".in")}
			case 2:
				return map[string]any{zzKey(n + ".inkey"): zzSmall(n + ".in")}
			}
		}
		return zzSmall(n)
	}
	switch vrt.Choice(name+".shape", 3) {
	case 0:
		return zzScalar(name, strMax)
	case 1:
		n := vrt.Choice(name+".n", 3)
		vs := make([]any, n)
		for i := range vs {
			vs[i] = elem(name + string(rune('a'+i)))
		}
		return vs
	default:
		n := vrt.Choice(name+".n", 3)
		m := map[string]any{}
		for i := 0; i < n; i++ {
			m[zzKey(name+".key"+string(rune('a'+i)))] = elem(name + string(rune('a'+i)))
		}
		return m
	}
}

func zzEncode(v any, opts Options) []byte {
	var out bytes.Buffer
	err := NewEncoder(opts).Marshal(v, &out)
	vrt.Assert(err == nil, "colorjson: encoding a plain JSON value does not fail")
	return out.Bytes()
}

// VerifEncodeString: every string of up to 3 arbitrary bytes (4 in the thorough tier).
func VerifEncodeString()  { zzEncodeString(3) }
func VerifEncodeString4() { zzEncodeString(4) }

func zzEncodeString(max int) {
	s := zzString("s", max)
	got := zzEncode(s, Options{})
	want, _ := gojq.Marshal(s)
	vrt.Assert(bytes.Equal(got, want), "colorjson: a string is encoded exactly as the reference jq engine encodes it")
}

// VerifEncodeValue: scalars, arrays and objects, compact form.
func VerifEncodeValue() {
	v := zzValue("v", 3, false)
	got := zzEncode(v, Options{})
	want, _ := gojq.Marshal(v)
	vrt.Assert(bytes.Equal(got, want), "colorjson: a value is encoded exactly as the reference jq engine encodes it")
}

// zzStrip removes what indentation and colouring add: colour sequences (they
// start with 0x01, which the encoder never emits for content because control
// bytes inside strings are escaped), and outside strings the newline + indent
// runs and the blank after ':'. It also checks the indentation itself: after
// each newline exactly depth*indent indent characters follow.
func zzStrip(b []byte, indent int, tab bool) []byte {
	var out []byte
	inStr := false
	skipBlank := false
	depth := 0
	ic := byte(' ')
	if tab {
		ic = '\t'
	}
	for i := 0; i < len(b); i++ {
		c := b[i]
		if c == 0x01 {
			i++ // colour sequence: 0x01 + one letter
			continue
		}
		if skipBlank {
			skipBlank = false
			vrt.Assert(c == ' ', "colorjson: one blank after ':' in indented output")
			continue
		}
		if inStr {
			out = append(out, c)
			if c == '\\' {
				i++
				out = append(out, b[i])
			} else if c == '"' {
				inStr = false
			}
			continue
		}
		switch c {
		case '"':
			inStr = true
			out = append(out, c)
		case '[', '{':
			depth++
			out = append(out, c)
		case ']', '}':
			depth--
			out = append(out, c)
		case '\n':
			// the closing bracket is indented one level less
			j := i + 1
			n := 0
			for j < len(b) && b[j] == ic {
				j++
				n++
			}
			d := depth
			k := j
			for k < len(b) && b[k] == 0x01 {
				k += 2
			}
			if k < len(b) && (b[k] == ']' || b[k] == '}') {
				d--
			}
			vrt.Assert(n == d*indent, "colorjson: every line is indented by nesting depth times the indent width")
			i = j - 1
		case ':':
			out = append(out, c)
			skipBlank = indent != 0
		default:
			out = append(out, c)
		}
	}
	return out
}

// zzShape: one of 12 container shapes (nesting depth <= 2, empty containers,
// two-element containers) around one symbolic one-byte string leaf.
func zzShape() any {
	leaf := zzString("leaf", 1)
	switch vrt.Choice("shape", 12) {
	case 0:
		return leaf
	case 1:
		return []any{}
	case 2:
		return map[string]any{}
	case 3:
		return []any{leaf}
	case 4:
		return []any{leaf, 1.5}
	case 5:
		return map[string]any{"k": leaf}
	case 6:
		return map[string]any{"b": leaf, "a\"": nil}
	case 7:
		return []any{[]any{leaf}, []any{}}
	case 8:
		return []any{map[string]any{"k": leaf}, map[string]any{}}
	case 9:
		return map[string]any{"k": []any{leaf, true}}
	case 10:
		return map[string]any{"k": map[string]any{"j": leaf}, "l": []any{}}
	default:
		return []any{[]any{}, map[string]any{}, leaf}
	}
}

// VerifEncodeIndentColor: indentation (spaces or tabs, widths from zzIndents so that the
// doubling loop of writeIndentInternal is taken) and colouring only add
// removable decoration to the compact reference encoding.
func VerifEncodeIndentColor() {
	v := zzShape()
	indent := zzIndents[vrt.Choice("indent", len(zzIndents))]
	tab := vrt.Choice("tab", 2) == 1
	color := vrt.Choice("color", 2) == 1
	opts := Options{Indent: indent, Tab: tab, Color: color, Colors: Colors{
		Reset: []byte("\x01r"), Null: []byte("\x01n"), False: []byte("\x01f"), True: []byte("\x01t"), Number: []byte("\x01d"),
		String: []byte("\x01s"), ObjectKey: []byte("\x01k"), Array: []byte("\x01a"), Object: []byte("\x01o"),
	}}
	got := zzStrip(zzEncode(v, opts), indent, tab)
	want, _ := gojq.Marshal(v)
	vrt.Assert(bytes.Equal(got, want), "colorjson: indented/coloured output is the reference encoding plus removable decoration")
}

// VerifEncodeValueFn: values behind ValueFn (decode values in fq) are encoded
// as what ValueFn returns.
type zzBoxed struct{ v any }

func VerifEncodeValueFn() {
	inner := zzScalar("v", 3)
	opts := Options{ValueFn: func(v any) (any, error) {
		if b, ok := v.(zzBoxed); ok {
			return b.v, nil
		}
		return v, nil
	}}
	got := zzEncode([]any{zzBoxed{inner}, map[string]any{"k": zzBoxed{inner}}}, opts)
	want, _ := gojq.Marshal([]any{inner, map[string]any{"k": inner}})
	vrt.Assert(bytes.Equal(got, want), "colorjson: a value behind ValueFn is encoded as its plain JSON value")
}

// VerifEncodeNested: thorough tier, nested containers in compact form.
func VerifEncodeNested() {
	v := zzValue("v", 1, true)
	got := zzEncode(v, Options{})
	want, _ := gojq.Marshal(v)
	vrt.Assert(bytes.Equal(got, want), "colorjson: a value is encoded exactly as the reference jq engine encodes it")
}
