# Registry of harnesses per property: entry = <package dir relative to the repo>.<Func>
# tier: "quick" harnesses run in both tiers; "thorough" only in the thorough tier;
# harnesses sharing a "group" are alternatives: in the thorough tier the thorough
# member replaces the quick member.

TRUSTED_BASE = [
    "go/packages + go/types + go/ssa (golang.org/x/tools v0.29.0): Go source -> SSA",
    "gosym: the engine's implementation of each SSA instruction, of Go integer/float semantics as SMT terms, and of its intrinsics (sync, sync/atomic, errors.Is/As, internal/bytealg, unsafe.String/Slice, math bit casts)",
    "z3 5.1.0: every sat/unsat verdict",
    "native replay (go test -overlay) confirms every counterexample and a sample of completed paths",
]

COMMON_ASSUMPTIONS = [
    "bounds listed per harness (buffer sizes, widths, operation counts) — inputs outside them are outside the claim",
    "fmt.Sprintf/Errorf are contract stubs (message text is not checked)",
    "map iteration order is fixed (sorted keys) in the engine",
    "package initialisers listed under package_inits_not_run were not executed (their globals are zero in the engine)",
]

EXTRA_OVERLAY = {}

PROPS = {}

PROPS["C01"] = {
    "level": "model_checking",
    "explanation": "bounded symbolic execution of the real bit readers against a bit-by-bit reference",
    "harnesses": [
        {"entry": "pkg/bitio.VerifRead64", "clause": "Read64 = big-endian value of bits [first, first+n)", "asserts": ["Read64 value"],
         "bounds": {"buffer_bytes": 16, "nBits": "0..64", "firstBit": "0..128"}},
    ],
    "outside": ["ctxreadseeker", "OS files", "buffers > 16 bytes"],
}
