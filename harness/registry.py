# Registry of harnesses per property: entry = <package dir relative to the repo>.<Func>
# tier: "quick" harnesses run in both tiers; "thorough" only in the thorough tier;
# harnesses sharing a "group" are alternatives: in the thorough tier the thorough
# member replaces the quick member.

TRUSTED_BASE = [
    "go/packages + go/types + go/ssa (golang.org/x/tools v0.29.0): Go source -> SSA",
    "gosym: the engine's implementation of each SSA instruction, of Go integer/float semantics as SMT terms, and of its intrinsics (sync, sync/atomic, errors.Is/As, internal/bytealg, unsafe.String/Slice, math bit casts)",
    "z3 5.1.0: every sat/unsat verdict",
    "native replay (go test -overlay) confirms every counterexample and a sample of completed paths",
]

COMMON_ASSUMPTIONS = [
    "bounds listed per harness (buffer sizes, widths, operation counts) — inputs outside them are outside the claim",
    "fmt.Sprintf/Errorf are contract stubs (message text is not checked)",
    "map iteration order is fixed (sorted keys) in the engine",
    "package initialisers listed under package_inits_not_run were not executed (their globals are zero in the engine)",
]

EXTRA_OVERLAY = {}

NOT_REACHED = {
}

import os, re, subprocess


def _methods(gosym, repo, pkg, typ):
    r = subprocess.run([gosym, "methods", "-repo", repo, "-pkg", pkg, "-type", typ], capture_output=True, text=True)
    out = []
    for line in r.stdout.splitlines():
        if "\t" in line:
            n, sig = line.split("\t", 1)
            out.append((n, sig))
    return out


def gen_C02(repo, gendir, gosym):
    """One dispatch harness over every generated (Try)?(U|S|F)<n>(LE|BE)? method of decode.D,
    enumerated from go/types of the current tree."""
    ms = _methods(gosym, repo, "pkg/decode", "D")
    cases_i, cases_f = [], []
    for name, sig in ms:
        m = re.fullmatch(r"(Try)?(U|S|F)(\d+)(LE|BE)?", name)
        if not m:
            continue
        tr, kind, n, e = m.group(1), m.group(2), int(m.group(3)), m.group(4)
        fixed = {"LE": 1, "BE": 0, None: -1}[e]
        if kind in "US":
            if (tr and sig not in ("func() (uint64, error)", "func() (int64, error)")) or (not tr and sig not in ("func() uint64", "func() int64")):
                continue
            signed = "true" if kind == "S" else "false"
            call = "d.%s" % name if tr else ("zzPanicU(d.%s)" % name if kind == "U" else "zzPanicS(d.%s)" % name)
            if kind == "U":
                cases_i.append("zzCheckInt(d, buf, pos, %d, %d, false, %s, nil) // %s" % (n, fixed, call, name))
            else:
                cases_i.append("zzCheckInt(d, buf, pos, %d, %d, true, nil, %s) // %s" % (n, fixed, call, name))
        else:
            if (tr and sig != "func() (float64, error)") or (not tr and sig != "func() float64"):
                continue
            call = "d.%s" % name if tr else "zzPanicF(d.%s)" % name
            cases_f.append("zzCheckFloat(d, buf, pos, %d, %d, %s) // %s" % (n, fixed, call, name))
    def emit(fname, cases, nbytes, positions):
        src = ["// generated from go/types of the current tree on every run; do not edit", "package decode", "",
               'import vrt "github.com/wader/fq/internal/zzvrt"', "", "func %s() {" % fname,
               "\tbuf := vrt.Bytes(\"buf\", %d)" % nbytes,
               "\tpos := int64(%s)" % positions,
               "\tendian := Endian(vrt.Choice(\"endian\", 2))",
               "\td := zzD(buf, endian, pos)",
               "\tswitch vrt.Choice(\"method\", %d) {" % len(cases)]
        for i, c in enumerate(cases):
            src.append("\tcase %d:\n\t\t%s" % (i, c))
        src += ["\t}", "}", ""]
        return "\n".join(src)
    d = os.path.join(gendir, "pkg", "decode")
    os.makedirs(d, exist_ok=True)
    open(os.path.join(d, "gen_int.go"), "w").write(
        emit("VerifGenInt", cases_i, 10, "[]int{0, 3, 7}[vrt.Choice(\"posIdx\", 3)]") + "\n" +
        emit("VerifGenIntAllPos", cases_i, 10, "vrt.IntRange(\"pos\", 0, 17)").split("\n", 5)[5] + "\n" +
        emit("VerifGenFloat", cases_f, 12, "[]int{0, 5}[vrt.Choice(\"posIdx\", 2)]").split("\n", 5)[5])
    return {"int_methods": len(cases_i), "float_methods": len(cases_f)}


def c06_formats(repo):
    """(package dir, format variable name) of every interp.RegisterFormat(format.X, ...) in the current tree"""
    out = []
    for root, _, files in sorted(os.walk(os.path.join(repo, "format"))):
        rel = os.path.relpath(root, repo)
        for f in sorted(files):
            if not f.endswith(".go") or f.endswith("_test.go") or f.startswith("zz_verif"):
                continue
            for m in re.finditer(r"interp\.RegisterFormat\(\s*format\.(\w+),", open(os.path.join(root, f)).read()):
                out.append((rel, m.group(1)))
    return out


def _pkgname(repo, rel):
    for f in sorted(os.listdir(os.path.join(repo, rel))):
        if f.endswith(".go") and not f.endswith("_test.go"):
            m = re.search(r"^package (\w+)", open(os.path.join(repo, rel, f)).read(), re.M)
            if m:
                return m.group(1)
    return os.path.basename(rel)


def c06_emit(gendir, items, repo="/repo"):
    """items: (rel, pkgname or '', format var, N, func name); one generated file per package"""
    by = {}
    for rel, pkg, name, n, fn in items:
        by.setdefault(rel, []).append((pkg or _pkgname(repo, rel), name, n, fn))
    for rel, lst in by.items():
        d = os.path.join(gendir, rel)
        os.makedirs(d, exist_ok=True)
        src = ["// generated from the interp.RegisterFormat calls of the current tree on every run; do not edit", "package %s" % lst[0][0], "",
               "import (", '\t"github.com/wader/fq/format"', '\t"github.com/wader/fq/pkg/interp"', ")", ""]
        for _, name, n, fn in lst:
            src.append("func %s() { interp.ZZNoCrashGroup(format.%s, %d) }" % (fn, name, n))
        open(os.path.join(d, "gen_nocrash.go"), "w").write("\n".join(src) + "\n")


def gen_C06(repo, gendir, gosym):
    """One generic no-crash harness per registered format, enumerated from the interp.RegisterFormat calls of
    the current tree; input sizes from harness/c06_bounds.json (calibrated: the sizes whose path space the
    engine exhausts), formats not listed there get the default size."""
    import json
    b = json.load(open(os.path.join(os.path.dirname(os.path.abspath(__file__)), "c06_bounds.json")))
    items, added, skipped, defaulted = [], [], {}, []
    spec = PROPS["C06"]
    spec["harnesses"] = [h for h in spec["harnesses"] if not h.get("generated")]
    for rel, name in c06_formats(repo):
        if name in b["skip"]:
            skipped[name] = b["skip"][name]
            continue
        fb = b["formats"].get(name)
        if fb is None:
            fb = {"quick": b["default"], "thorough": b["default"]}
            defaulted.append(name)
        q, t = fb["quick"], fb["thorough"]
        items.append((rel, "", name, q, "VerifNoCrashGen_" + name))
        h = {"entry": "%s.VerifNoCrashGen_%s" % (rel, name), "generated": True, "clause": "registered format %s (real Format incl. default in-arg, dependency groups stubbed) never panics" % name, "bounds": {"input_bytes": "0..%d" % q}}
        if t > q:
            h["group"] = "ncg-" + name
            items.append((rel, "", name, t, "VerifNoCrashGenLong_" + name))
            spec["harnesses"].append({"entry": "%s.VerifNoCrashGenLong_%s" % (rel, name), "generated": True, "group": "ncg-" + name, "tier": "thorough",
                                      "clause": "registered format %s never panics" % name, "bounds": {"input_bytes": "0..%d" % t}})
        spec["harnesses"].append(h)
        added.append(name)
    c06_emit(gendir, items, repo)
    return {"formats_in_tree": len(added) + len(skipped), "formats_checked": len(added), "formats_with_default_bound": defaulted, "formats_skipped": skipped}

PROPS = {}

PROPS["C01"] = {
    "level": "model_checking",
    "explanation": "bounded symbolic execution of the real bit/byte readers and writers against a bit-by-bit reference contract; stateful readers additionally by one inductive step from an arbitrary state satisfying the representation invariant, and by bounded operation histories through the public API",
    "wall_quick": 1500, "wall_thorough": 10800,
    "harnesses": [
        {"entry": "pkg/bitio.VerifRead64", "clause": "Read64 = big-endian value of bits [first, first+n)", "asserts": ["Read64 value"],
         "bounds": {"buffer_bytes": 16, "nBits": "0..64", "firstBit": "0..128"}},
        {"entry": "pkg/bitio.VerifWrite64", "clause": "Write64 writes exactly the n bits of v, nothing else changes", "asserts": ["Write64 bits"],
         "bounds": {"buffer_bytes": 12, "nBits": "0..64", "firstBit": "0..96", "precondition": "v < 2^nBits (all callers)"}},
        {"entry": "pkg/bitio.VerifRW64Contract", "clause": "nBits outside 0..64 panics (documented contract)", "bounds": {"nBits": "any int64 outside 0..64"}},
        {"entry": "pkg/bitio.VerifCopyBufBits", "group": "copybuf", "clause": "copyBufBits copies n bits between arbitrary alignments, optional zero fill of the last byte",
         "asserts": ["copyBufBits bits"], "bounds": {"bytes": 11, "starts": "0..8", "n": "0..66"}},
        {"entry": "pkg/bitio.VerifCopyBufBitsWide", "group": "copybuf", "tier": "thorough", "clause": "copyBufBits, wider bounds", "asserts": ["copyBufBits bits"],
         "bounds": {"bytes": 20, "starts": "0..15", "n": "0..131"}},
        {"entry": "pkg/bitio.VerifReadFull", "group": "readfull", "clause": "ReadFull/ReadAtFull stitch arbitrary short reads", "bounds": {"source_bits": "11..14", "n": "0..6", "at": "0..7", "short_reads": "any count in [1,possible] per call"}},
        {"entry": "pkg/bitio.VerifReadFullWide", "group": "readfull", "tier": "thorough", "clause": "ReadFull/ReadAtFull, wider bounds", "bounds": {"source_bits": "0..16", "n": "0..11", "at": "0..16"}},
        {"entry": "pkg/bitio.VerifIOBitReadSeekerReadAt", "clause": "IOBitReadSeeker.ReadBitsAt over bytes.Reader, second call (stale internal buffer)",
         "bounds": {"source_bytes": "0..5", "n": "0..20", "off": "0..8*len+9"}},
        {"entry": "pkg/bitio.VerifIOBitReadSeekerSeekRead", "clause": "IOBitReadSeeker.SeekBits (3 whences) then ReadBits", "bounds": {"source_bytes": "0..4", "off": "-34..34", "n": "0..12"}},
        {"entry": "pkg/bitio.VerifSectionReaderStep", "clause": "SectionReader: one ReadBitsAt/ReadBits/SeekBits/Clone from an arbitrary valid state (inductive step, covers histories of any length)",
         "bounds": {"source_bits": "0..32 symbolic", "base/off/limit": "symbolic", "n": "-1..18"}},
        {"entry": "pkg/bitio.VerifMultiReaderStep", "group": "multi", "clause": "MultiReader over 1..2 sub sources of symbolic length: constructor prefix sums + one step from an arbitrary valid state",
         "bounds": {"sub_readers": "1..2", "sub_bits": "0..16 symbolic", "n": "0..12"}},
        {"entry": "pkg/bitio.VerifMultiReaderStep3", "group": "multi", "tier": "thorough", "clause": "MultiReader over 1..3 sub sources", "bounds": {"sub_readers": "1..3"}},
        {"entry": "pkg/bitio.VerifLimitReaderStep", "clause": "LimitReader: one ReadBits from an arbitrary state", "bounds": {"source_bits": "0..24", "limit": "-2..28"}},
        {"entry": "pkg/bitio.VerifBufferWriteRead", "clause": "Buffer is a FIFO of bits; zero padded reads; Bits() content", "bounds": {"writes": "0..24 and 0..17 bits", "read": "0..30"}},
        {"entry": "pkg/bitio.VerifBufferBitsLen", "clause": "Buffer.Bits reports the unread bit count", "bounds": {"write": "0..16", "read": "0..16"}},
        {"entry": "pkg/bitio.VerifIOReader", "clause": "IOReader: byte view = bits ++ zero pad, once, for any read sizes (including zero-length reads)", "bounds": {"source_bits": "0..24", "read_sizes": "0..3,1..2,4,4"}},
        {"entry": "pkg/bitio.VerifIOReadSeeker", "group": "iors", "clause": "IOReadSeeker: Read, Seek(any whence), Read returns the bytes at the target", "bounds": {"source_bits": "12..24", "first_read": "0..3 bytes"}},
        {"entry": "pkg/bitio.VerifIOReadSeekerLong", "group": "iors", "tier": "thorough", "clause": "IOReadSeeker with a source > 64 bits (byte position reaches 8)", "bounds": {"source_bits": "68..80", "first_read": "0..16 bytes"}},
        {"entry": "pkg/bitio.VerifIOBitWriter", "clause": "IOBitWriter output = written bits ++ zero pad after Flush", "bounds": {"writes": "0..24 and 0..13 bits"}},
        {"entry": "internal/aheadreadseeker.VerifAheadHistory", "group": "aheadhist", "clause": "aheadreadseeker: every 3-operation history through the public API equals a plain reader", "bounds": {"data_bytes": 5, "minRead": "1,2,4", "ops": 3}},
        {"entry": "internal/aheadreadseeker.VerifAheadHistory4", "group": "aheadhist", "tier": "thorough", "clause": "aheadreadseeker: 4-operation histories", "bounds": {"ops": 4}},
        {"entry": "internal/aheadreadseeker.VerifAheadStep", "clause": "aheadreadseeker: one operation from an arbitrary state satisfying the cache invariant keeps the invariant (covers histories of any length)",
         "bounds": {"data_bytes": 6, "cache": "0..4 bytes"}},
        {"entry": "internal/progressreadseeker.VerifProgressHistory", "group": "proghist", "clause": "progressreadseeker is a transparent pass-through; progress monotone and <= total", "bounds": {"ops": 2, "precision": "1..4", "totalSize": "1..7 (file grown/shrunk)"}},
        {"entry": "internal/progressreadseeker.VerifProgressHistory3", "group": "proghist", "tier": "thorough", "clause": "progressreadseeker, 3 operations", "bounds": {"ops": 3}},
        {"entry": "internal/bitiox.VerifZeroStep", "clause": "ZeroReadAtSeeker: one step from an arbitrary state", "bounds": {"bits": "0..40 symbolic"}},
        {"entry": "internal/bitiox.VerifLenRange", "clause": "bitiox.Len / bitiox.Range", "bounds": {"source_bits": "0..24 symbolic"}},
        {"entry": "internal/bitiox.VerifCopyBits", "clause": "bitiox.CopyBits = bits ++ zero pad", "bounds": {"bits": "0..24", "first": "0..7"}},
        {"entry": "internal/bitiox.VerifComposition", "clause": "Multi(Zero(pad), Section(Section(BitReader))) — the stack binaries and nested decodes build", "bounds": {"pad": "0..7", "first": "0..9", "len": "0..14"}},
    ],
    "assumptions": [
        "Write64 precondition: v < 2^nBits (true for all callers)",
        "SectionReader invariant: 0 <= base <= limit <= source length, base <= cursor (constructor precondition enforced by bitiox.Range)",
        "reference sources return EOF together with data only when the read was cut short by the end (as every fq reader does)",
        "negative read offsets are outside the claim (as for io.ReaderAt)",
    ],
    "outside": ["ctxreadseeker (goroutine pass-through)", "OS files (bytes.Reader stands in)", "buffers beyond the stated sizes", "cache blocks > 4 bytes", "IOReadSeeker.Seek(SeekEnd) on a source whose length is not a multiple of 8"],
}


PROPS["C02"] = {
    "level": "model_checking",
    "gen": gen_C02,
    "explanation": "bounded symbolic execution of the decode library's scalar readers over symbolic buffers at every bit alignment, against bit-loop references; every generated (Try)?(U|S|F)<n>(LE|BE)? method is enumerated from go/types of the current tree and checked for the width and byte order its name promises",
    "wall_quick": 1200, "wall_thorough": 7200,
    "harnesses": [
        {"entry": "pkg/decode.VerifUSKernel", "clause": "tryUEndian/trySEndian for every width 1..64, both byte orders, unsigned and two's complement", "bounds": {"buffer_bytes": 10, "pos": "0..23", "nBits": "1..64"}},
        {"entry": "pkg/decode.VerifUSWidthDomain", "clause": "integer readers refuse widths outside their domain (-2..0 and 65..67 tried) with an error, never a runtime panic; zero width unsigned read is 0", "bounds": {"nBits": "-2..67 outside 1..64"}},
        {"entry": "pkg/decode.VerifUSTail", "clause": "error iff not enough bits (buffer tail)", "bounds": {"buffer_bytes": 3, "pos": "0..24", "nBits": "1..32"}},
        {"entry": "pkg/decode.VerifReverseBytes64", "clause": "ReverseBytes64 vs byte loop for widths 1..64", "bounds": {"v": "any value < 2^nBits"}},
        {"entry": "pkg/decode.VerifGenInt", "group": "genint", "clause": "every generated integer reader method (enumerated from go/types): value, width, byte order, advance, error iff short", "bounds": {"buffer_bytes": 10, "pos": "0,3,7"}},
        {"entry": "pkg/decode.VerifGenIntAllPos", "group": "genint", "tier": "thorough", "clause": "generated integer readers at every position 0..17", "bounds": {"pos": "0..17"}},
        {"entry": "pkg/decode.VerifGenFloat", "clause": "every generated float reader method is wired to the kernel with its width and byte order", "bounds": {"buffer_bytes": 12, "pos": "0,5"}},
        {"entry": "pkg/decode.VerifBigInt", "group": "bigint", "clause": "tryBigIntEndianSign: every bit of the result equals the input bit; two's complement sign", "bounds": {"widths": "1,7,8,9,63,64,65,72,127,128,129", "pos": "0..7"}},
        {"entry": "pkg/decode.VerifBigIntWide", "group": "bigint", "tier": "thorough", "clause": "big integers, every width 1..136", "bounds": {"widths": "1..136"}},
        {"entry": "pkg/decode.VerifFloat16", "clause": "binary16 -> float64 exact for all 2^16 patterns (SMT to_fp as reference)", "bounds": {"patterns": "all 65536"}},
        {"entry": "pkg/decode.VerifFloat3264", "clause": "binary32/64 readers are bit casts", "bounds": {"pos": "0..7"}},
        {"entry": "pkg/decode.VerifFloat80", "clause": "x87 80-bit -> float64: exact where representable, infinity above and zero below the binary64 range, NaN stays NaN, else one of the two neighbouring doubles", "bounds": {"patterns": "all 2^80; unnormals and the binary64 subnormal range are outside the claim"}},
        {"entry": "pkg/decode.VerifFixedPoint", "clause": "fixed point = integer / 2^fraction", "bounds": {"kinds": "16.8 32.16 64.32 16.14 32.30"}},
        {"entry": "pkg/decode.VerifULEB128", "clause": "ULEB128 value; overflow or truncation is an error, never a wrapped value", "bounds": {"bytes": 11}},
        {"entry": "pkg/decode.VerifSLEB128", "clause": "SLEB128 value with sign extension", "bounds": {"bytes": 11}},
        {"entry": "pkg/decode.VerifUnaryBool", "clause": "unary code and bool", "bounds": {"buffer_bytes": 3, "pos": "0..9"}},
        {"entry": "pkg/decode.VerifText", "clause": "fixed / null terminated / null padded / length prefixed text: byte range and position arithmetic", "bounds": {"buffer_bytes": 6, "declared_length": "0..7"}},
    ],
    "assumptions": [
        "little endian is checked at whole-byte widths only (as the property states)",
        "text decoding is the identity (x/text Decoder.String stubbed): ASCII only, transcoding outside the claim",
        "the shared read buffer holds arbitrary symbolic garbage before every read (results must not depend on it)",
        "ULEB128 encodings that use the tenth byte may be rejected (fq rejects values >= 2^63): an error, not a wrong value",
    ],
    "outside": ["UTF-8/UTF-16 transcoding", "big integers > 136 bits", "Field*/Scalar* wrappers (tree bookkeeping is C03)", "float80 unnormals and results in the binary64 subnormal range"],
}


PROPS["C04"] = {
    "level": "model_checking",
    "explanation": "ranges.Gaps with fully symbolic ranges and a symbolic bit position (the 'for every bit' quantifier is a solver variable), through the real generic slices.SortFunc",
    "wall_quick": 1500, "wall_thorough": 14400, "solver_timeout_ms": 30000,
    "harnesses": [
        {"entry": "pkg/ranges.VerifGapsEmpty", "clause": "no ranges: the total range is the gap", "bounds": {}},
        {"entry": "pkg/ranges.VerifMinMax", "clause": "MinMax is the tight span", "bounds": {"values": "< 2^50"}},
        {"entry": "pkg/ranges.VerifGaps1", "clause": "cover property, 1 range", "bounds": {"total": "<= 2^40", "ranges": 1}},
        {"entry": "pkg/ranges.VerifGaps2", "clause": "cover property, 2 ranges (any order, overlap, empty ranges)", "bounds": {"total": "<= 4096", "ranges": 2}},
        {"entry": "pkg/ranges.VerifGaps3", "tier": "thorough", "clause": "cover property, 3 ranges", "bounds": {"total": "<= 4096", "ranges": 3}},
        {"entry": "pkg/ranges.VerifGaps4", "tier": "thorough", "clause": "cover property, 4 ranges", "bounds": {"total": "<= 255", "ranges": 4}},
    ],
    "assumptions": ["total.Start = 0 and every range lies inside the total range (the only way FillGaps calls Gaps)"],
    "outside": ["more than 4 ranges", "totals beyond the stated bounds"],
}


PROPS["C03"] = {
    "level": "model_checking",
    "explanation": "the real decode.Decode (newDecoder, field readers, AddChild, FramedFn/LimitedFn/RangeFn, sub formats, nested roots, recoverfn, FillGaps, postProcess) is executed on 10 parameterised decoder programs over symbolic buffers of every length 0..6 bytes (so every truncated / failed form is explored); the resulting *decode.Value graph is walked and the structural invariants asserted",
    "wall_quick": 1200, "wall_thorough": 7200,
    "harnesses": [
        {"entry": "pkg/decode.VerifTreeFlat", "clause": "tree invariants on program flat: four leaf readers (unsigned, signed, raw, bool) of symbolic-choice widths", "bounds": {"buffer_bytes": "0..6 (all truncations)", "widths": "1,8,13,17"}},
        {"entry": "pkg/decode.VerifTreeNested", "clause": "tree invariants on program nested: struct + array of structs + counted array", "bounds": {"buffer_bytes": "0..6 (all truncations)", "widths": "1,8,13,17"}},
        {"entry": "pkg/decode.VerifTreeSeek", "clause": "tree invariants on program seek: relative/absolute seeks incl. backwards, past the end and restoring seeks (out-of-order fields)", "bounds": {"buffer_bytes": "0..6 (all truncations)", "widths": "1,8,13,17"}},
        {"entry": "pkg/decode.VerifTreeFramed", "clause": "tree invariants on program framed: FramedFn / LimitedFn / RangeFn", "bounds": {"buffer_bytes": "0..6 (all truncations)", "widths": "1,8,13,17"}},
        {"entry": "pkg/decode.VerifTreeRanges", "clause": "tree invariants on program ranges: FieldRangeFn, synthetic fields, struct with only synthetic children", "bounds": {"buffer_bytes": "0..6 (all truncations)", "widths": "1,8,13,17"}},
        {"entry": "pkg/decode.VerifTreeSubformat", "clause": "tree invariants on program subformat: FieldFormat / FieldFormatLen / FieldFormatRange / FieldFormatOrRawLen with a sub format", "bounds": {"buffer_bytes": "0..6 (all truncations)", "widths": "1,8,13,17"}},
        {"entry": "pkg/decode.VerifTreeNestedRoot", "clause": "tree invariants on program nestedroot: FieldRootBitBuf / FieldStructRootBitBufFn / FieldFormatBitBuf over a second symbolic buffer", "bounds": {"buffer_bytes": "0..6 (all truncations)", "widths": "1,8,13,17"}},
        {"entry": "pkg/decode.VerifTreeLoop", "clause": "tree invariants on program loop: FieldArrayLoop until end", "bounds": {"buffer_bytes": "0..6 (all truncations)", "widths": "1,8,13,17"}},
        {"entry": "pkg/decode.VerifTreeSymLayout", "clause": "tree invariants on program symlayout: fields placed at fully symbolic ranges (ordering and spans decided by the solver)", "bounds": {"buffer_bytes": "0..6 (all truncations)", "widths": "1,8,13,17"}},
        {"entry": "pkg/decode.VerifTreeErrors", "clause": "tree invariants on program errors: Fatalf, duplicate field name, Errorf with and without force, invalid width", "bounds": {"buffer_bytes": "0..6 (all truncations)", "widths": "1,8,13,17"}}
    ],
    "assumptions": [
        "the quantifier over decoder programs is covered by 10 parameterised programs that between them use every tree-building combinator of pkg/decode; registered formats are not executed here (see C06/C16)",
        "FieldRangeFn precondition: the caller passes a range inside the buffer (no format uses FieldRangeFn; RangeFn validates)",
    ],
    "outside": ["all 132 registered formats", "buffers > 6 bytes", "widths other than 1, 8, 13, 17 in the multi-field programs"],
}

PROPS["C04"]["harnesses"] += [
        {"entry": "pkg/decode.VerifCoverFlat", "clause": "FillGaps cover + gap content on program flat", "bounds": {"buffer_bytes": "0..6", "widths": "1,8,13,17"}},
        {"entry": "pkg/decode.VerifCoverNested", "clause": "FillGaps cover + gap content on program nested", "bounds": {"buffer_bytes": "0..6", "widths": "1,8,13,17"}},
        {"entry": "pkg/decode.VerifCoverSeek", "clause": "FillGaps cover + gap content on program seek", "bounds": {"buffer_bytes": "0..6", "widths": "1,8,13,17"}},
        {"entry": "pkg/decode.VerifCoverFramed", "clause": "FillGaps cover + gap content on program framed", "bounds": {"buffer_bytes": "0..6", "widths": "1,8,13,17"}},
        {"entry": "pkg/decode.VerifCoverRanges", "clause": "FillGaps cover + gap content on program ranges", "bounds": {"buffer_bytes": "0..6", "widths": "1,8,13,17"}},
        {"entry": "pkg/decode.VerifCoverSubformat", "clause": "FillGaps cover + gap content on program subformat", "bounds": {"buffer_bytes": "0..6", "widths": "1,8,13,17"}},
        {"entry": "pkg/decode.VerifCoverNestedRoot", "clause": "FillGaps cover + gap content on program nestedroot", "bounds": {"buffer_bytes": "0..6", "widths": "1,8,13,17"}},
        {"entry": "pkg/decode.VerifCoverLoop", "clause": "FillGaps cover + gap content on program loop", "bounds": {"buffer_bytes": "0..6", "widths": "1,8,13,17"}},
        {"entry": "pkg/decode.VerifCoverSymLayout", "clause": "FillGaps cover + gap content on program symlayout", "bounds": {"buffer_bytes": "0..6", "widths": "1,8,13,17"}},
        {"entry": "pkg/decode.VerifCoverErrors", "clause": "FillGaps cover + gap content on program errors", "bounds": {"buffer_bytes": "0..6", "widths": "1,8,13,17"}}
]
PROPS["C04"]["explanation"] += "; and D.FillGaps on the decode trees of the 10 C03 programs: cover property for a symbolic bit position over the real leaf ranges, gap readers yield exactly the input bits"


PROPS["C12"] = {
    "level": "model_checking",
    "explanation": "on the decode trees of the 10 C03 programs (every truncation, nested roots, gap fields, out-of-order fields): folding the real valuePath(v) through the real JQValueKey/JQValueIndex of the struct/array decode values arrives at the same *decode.Value; _parent/_root/_buffer_root/_format_root/_index/_name agree with the tree",
    "wall_quick": 1200, "wall_thorough": 3600,
    "harnesses": [
        {"entry": "pkg/interp.VerifNavFlat", "clause": "path <-> navigation on the trees of program flat (one value per path)", "bounds": {"buffer_bytes": "0..6", "data": "fixed bytes (navigation does not depend on data)"}},
        {"entry": "pkg/interp.VerifNavNested", "clause": "path <-> navigation on the trees of program nested (one value per path)", "bounds": {"buffer_bytes": "0..6", "data": "fixed bytes (navigation does not depend on data)"}},
        {"entry": "pkg/interp.VerifNavSeek", "clause": "path <-> navigation on the trees of program seek (one value per path)", "bounds": {"buffer_bytes": "0..6", "data": "fixed bytes (navigation does not depend on data)"}},
        {"entry": "pkg/interp.VerifNavFramed", "clause": "path <-> navigation on the trees of program framed (one value per path)", "bounds": {"buffer_bytes": "0..6", "data": "fixed bytes (navigation does not depend on data)"}},
        {"entry": "pkg/interp.VerifNavRanges", "clause": "path <-> navigation on the trees of program ranges (one value per path)", "bounds": {"buffer_bytes": "0..6", "data": "fixed bytes (navigation does not depend on data)"}},
        {"entry": "pkg/interp.VerifNavSubformat", "clause": "path <-> navigation on the trees of program subformat (one value per path)", "bounds": {"buffer_bytes": "0..6", "data": "fixed bytes (navigation does not depend on data)"}},
        {"entry": "pkg/interp.VerifNavNestedRoot", "clause": "path <-> navigation on the trees of program nestedroot (one value per path)", "bounds": {"buffer_bytes": "0..6", "data": "fixed bytes (navigation does not depend on data)"}},
        {"entry": "pkg/interp.VerifNavLoop", "clause": "path <-> navigation on the trees of program loop (one value per path)", "bounds": {"buffer_bytes": "0..6", "data": "fixed bytes (navigation does not depend on data)"}},
        {"entry": "pkg/interp.VerifNavSymLayout", "clause": "path <-> navigation on the trees of program symlayout (one value per path)", "bounds": {"buffer_bytes": "0..6", "data": "fixed bytes (navigation does not depend on data)"}},
        {"entry": "pkg/interp.VerifNavErrors", "clause": "path <-> navigation on the trees of program errors (one value per path)", "bounds": {"buffer_bytes": "0..6", "data": "fixed bytes (navigation does not depend on data)"}}
    ],
    "assumptions": ["buffers hold fixed bytes: the checked relations are independent of the data; the symbolic variables are the structure parameters (widths, counts, seek targets, lengths, symbolic field ranges in symlayout)"],
    "outside": ["_path_to_expr / _expr_to_path (jq text over arbitrary strings): not encodable", "registered formats"],
}

PROPS["C05"] = {
    "level": "model_checking",
    "explanation": "for every value of the C03 trees over symbolic buffers: the real ToBinary/_toBits (unit 1 and 8, keep_range), the _bits/_bytes keys and Binary.toReader yield exactly the input bits of the value's inner range (byte form left padded with zero bits); every bits_format renderer and raw display against 10-line reference encoders",
    "wall_quick": 1500, "wall_thorough": 3600,
    "harnesses": [
        {"entry": "pkg/interp.VerifToBitsFlat", "clause": "tobits/tobytes/tobytesrange/._bits/._bytes of every value of the trees of program flat", "bounds": {"buffer_bytes": "0..6 symbolic"}},
        {"entry": "pkg/interp.VerifToBitsNested", "clause": "tobits/tobytes/tobytesrange/._bits/._bytes of every value of the trees of program nested", "bounds": {"buffer_bytes": "0..6 symbolic"}},
        {"entry": "pkg/interp.VerifToBitsSeek", "clause": "tobits/tobytes/tobytesrange/._bits/._bytes of every value of the trees of program seek", "bounds": {"buffer_bytes": "0..6 symbolic"}},
        {"entry": "pkg/interp.VerifToBitsFramed", "clause": "tobits/tobytes/tobytesrange/._bits/._bytes of every value of the trees of program framed", "bounds": {"buffer_bytes": "0..6 symbolic"}},
        {"entry": "pkg/interp.VerifToBitsRanges", "clause": "tobits/tobytes/tobytesrange/._bits/._bytes of every value of the trees of program ranges", "bounds": {"buffer_bytes": "0..6 symbolic"}},
        {"entry": "pkg/interp.VerifToBitsSubformat", "clause": "tobits/tobytes/tobytesrange/._bits/._bytes of every value of the trees of program subformat", "bounds": {"buffer_bytes": "0..6 symbolic"}},
        {"entry": "pkg/interp.VerifToBitsNestedRoot", "clause": "tobits/tobytes/tobytesrange/._bits/._bytes of every value of the trees of program nestedroot", "bounds": {"buffer_bytes": "0..6 symbolic"}},
        {"entry": "pkg/interp.VerifToBitsLoop", "clause": "tobits/tobytes/tobytesrange/._bits/._bytes of every value of the trees of program loop", "bounds": {"buffer_bytes": "0..6 symbolic"}},
        {"entry": "pkg/interp.VerifToBitsErrors", "clause": "tobits/tobytes/tobytesrange/._bits/._bytes of every value of the trees of program errors", "bounds": {"buffer_bytes": "0..6 symbolic"}},
        {"entry": "pkg/interp.VerifBitsFormatStateless", "clause": "one bits_format formatter renders several values in a row (as tovalue / -V do for a tree): each is its own encoding, no state (e.g. a running digest) is carried from one value to the next", "bounds": {"values": "3 fixed binaries", "formats": "string hex base64 truncate md5"}},
        {"entry": "pkg/interp.VerifToBitsRangedRoot", "clause": "a format decoded at a sub-range that does not start at bit 0 (`.x | format`): tobits/tobytes/._bits of the root and its fields are the input bits of their reported ranges", "bounds": {"buffer_bytes": 4, "range start": "0..17 bits"}},
        {"entry": "pkg/interp.VerifBitsFormat", "clause": "bits_format string/hex/base64/byte_array/truncate/md5 and raw display = reference encoding of the byte view", "bounds": {"buffer_bytes": 4, "start": "0..9", "len": "0..19", "pad": "0 or to byte boundary"}},
    ],
    "assumptions": ["the _bits/_bytes keys are read through decodeValueBase.JQValueKey (the code that builds the binary); the wrapper that first forces a raw leaf's lazy string is bypassed for raw leaves"],
    "outside": ["the jq glue (decode.jq tobits/tobytes wrappers)", "stdout plumbing", "truncate's 1024 byte boundary and snippet", "values > 6 bytes"],
}


PROPS["C15"] = {
    "level": "model_checking",
    "explanation": "checksum clauses only: the validity mark of stored checksums (UintAssertBytes) for symbolic stored value and sum bytes; one-step inductive lemmas for fq's table driven CRC-8/16/32 and for the stdlib CRC-32 (pure Go path) from an arbitrary state against bitwise polynomial division, injectivity of the step in state and in data byte (a single altered covered byte always changes the sum, for any length), big-endian Sum; the IPv4 one's complement checksum for every chunking",
    "wall_quick": 900, "wall_thorough": 3600, "solver_timeout_ms": 60000,
    "harnesses": [
        {"entry": "pkg/decode.VerifUintAssertBytes", "clause": "valid <=> stored value = big-endian value of the computed sum; error iff asserting and invalid", "bounds": {"sum_bytes": "1,2,4,8", "actual": "any uint64"}},
        {"entry": "pkg/checksum.VerifCRCStep", "clause": "CRC.Write of one byte from an arbitrary state = 8 bitwise division steps (inductive: any length); Sum big-endian", "bounds": {"tables": "ATM8/8, ANSI16/16, 04c11db7/32", "state": "any value inside the width"}},
        {"entry": "pkg/checksum.VerifCRCInjective", "clause": "CRC step injective in state and in byte", "bounds": {}},
        {"entry": "pkg/checksum.VerifCRCFold", "tier": "thorough", "clause": "CRC.Write of two bytes = fold of the step", "bounds": {}},
        {"entry": "pkg/checksum.VerifStdCRC32", "clause": "hash/crc32.Update (generic path) of one byte from an arbitrary state = bitwise reflected division; injective in the state", "bounds": {}},
        {"entry": "pkg/checksum.VerifIPv4Checksum", "clause": "IPv4 checksum over 0..6 bytes in 3 chunks at every split", "bounds": {"bytes": "0..6"}},
        {"entry": "format/gzip.VerifGzipStructure", "clause": "gzip files written by an independent writer in the harness (RFC 1952 header, RFC 1951 stored block, 1..2 members, no optional fields): fq reports the mtime, xfl, os, compressed size, payload bytes (per member and concatenated), crc32 (valid) and isize that were written", "bounds": {"members": "1..2", "xfl/os": "any value (first member)", "mtime": "5 representatives (first member)", "payload": "0..2 fixed bytes, stored (uncompressed) deflate block"}},
        {"entry": "format/gzip.VerifGzipOptionalFields", "clause": "one member with any combination of FTEXT/FHCRC/FEXTRA/FNAME/FCOMMENT and fixed small contents: fq reports the optional fields as written (known finding K2: the flag bits are read in reversed order)", "bounds": {"flags": "all 32 combinations", "contents": "fixed"}},
        {"entry": "format/gzip.VerifGzipChecksum", "clause": "gzip crc32 is marked valid iff the stored value is the CRC-32 of the payload: any stored value over a fixed payload; any value of an altered payload byte against the original's crc", "bounds": {"payload": "2 bytes, one symbolic"}},
    ],
    "assumptions": ["internal/cpu feature flags are all false in the engine: hash/crc32 takes its pure Go path"],
    "outside": ["member names/sizes/payloads from independent writers, deflate/bzip2 decompression, zip/tar/gif/wav/png structure: whole-file parsing and decompression loops, no bounded kernel (not applicable to this technique)",
                "hash/crc32 slicing-by-8 path for inputs >= 16 bytes: equivalence query undecided at 60 s (unknown)"],
}


PROPS["C13"] = {
    "level": "model_checking",
    "explanation": "each Go function fq registers with the jq VM is looked up in interp.DefaultRegistry at run time and its real entry point (the closure the VM calls, including the argument casting layer of internal/gojqx) is executed with a symbolic jq value as input and as every argument; every Go runtime check (shift count, division, index, slice, allocation size, nil, type assertion) is a solver query; the assertion is that the call returns",
    "wall_quick": 1500, "wall_thorough": 10800, "solver_timeout_ms": 30000,
    "harnesses": [
        {"entry": "pkg/interp.VerifTotalBnot", "clause": "bnot(input; args) over the symbolic jq value domain returns a value or an error value: no Go panic escapes", "bounds": {"values": "nil, bool, any int, 16 float64 class representatives (NaN, +-Inf, +-0, fractions, beyond int64, beyond size limits, denormal), big integers <= 128 bits of either sign, ASCII strings 0..2 bytes, one-element arrays, one-member option objects, binaries 0..2 bytes"}},
        {"entry": "pkg/interp.VerifTotalBsl", "clause": "bsl(input; args) over the symbolic jq value domain returns a value or an error value: no Go panic escapes", "bounds": {"values": "nil, bool, any int, 16 float64 class representatives (NaN, +-Inf, +-0, fractions, beyond int64, beyond size limits, denormal), big integers <= 128 bits of either sign, ASCII strings 0..2 bytes, one-element arrays, one-member option objects, binaries 0..2 bytes"}},
        {"entry": "pkg/interp.VerifTotalBsr", "clause": "bsr(input; args) over the symbolic jq value domain returns a value or an error value: no Go panic escapes", "bounds": {"values": "nil, bool, any int, 16 float64 class representatives (NaN, +-Inf, +-0, fractions, beyond int64, beyond size limits, denormal), big integers <= 128 bits of either sign, ASCII strings 0..2 bytes, one-element arrays, one-member option objects, binaries 0..2 bytes"}},
        {"entry": "pkg/interp.VerifTotalToBits", "tier": "thorough", "clause": "_tobits(input; args) over the symbolic jq value domain returns a value or an error value: no Go panic escapes", "bounds": {"values": "nil, bool, any int, 16 float64 class representatives (NaN, +-Inf, +-0, fractions, beyond int64, beyond size limits, denormal), big integers <= 128 bits of either sign, ASCII strings 0..2 bytes, one-element arrays, one-member option objects, binaries 0..2 bytes"}},
        {"entry": "pkg/interp.VerifTotalExtKeys", "clause": "_extkeys(input; args) over the symbolic jq value domain returns a value or an error value: no Go panic escapes", "bounds": {"values": "nil, bool, any int, 16 float64 class representatives (NaN, +-Inf, +-0, fractions, beyond int64, beyond size limits, denormal), big integers <= 128 bits of either sign, ASCII strings 0..2 bytes, one-element arrays, one-member option objects, binaries 0..2 bytes"}},
        {"entry": "pkg/interp.VerifTotalExtType", "clause": "_exttype(input; args) over the symbolic jq value domain returns a value or an error value: no Go panic escapes", "bounds": {"values": "nil, bool, any int, 16 float64 class representatives (NaN, +-Inf, +-0, fractions, beyond int64, beyond size limits, denormal), big integers <= 128 bits of either sign, ASCII strings 0..2 bytes, one-element arrays, one-member option objects, binaries 0..2 bytes"}},
        {"entry": "pkg/interp.VerifTotalCanDisp", "clause": "_can_display(input; args) over the symbolic jq value domain returns a value or an error value: no Go panic escapes", "bounds": {"values": "nil, bool, any int, 16 float64 class representatives (NaN, +-Inf, +-0, fractions, beyond int64, beyond size limits, denormal), big integers <= 128 bits of either sign, ASCII strings 0..2 bytes, one-element arrays, one-member option objects, binaries 0..2 bytes"}},
        {"entry": "format/text.VerifTotalFromHex", "clause": "from_hex(input; args) over the symbolic jq value domain returns a value or an error value: no Go panic escapes", "bounds": {"values": "nil, bool, any int, 16 float64 class representatives (NaN, +-Inf, +-0, fractions, beyond int64, beyond size limits, denormal), big integers <= 128 bits of either sign, ASCII strings 0..2 bytes, one-element arrays, one-member option objects, binaries 0..2 bytes"}},
        {"entry": "format/text.VerifTotalFromURLEncode", "clause": "from_urlencode(input; args) over the symbolic jq value domain returns a value or an error value: no Go panic escapes", "bounds": {"values": "nil, bool, any int, 16 float64 class representatives (NaN, +-Inf, +-0, fractions, beyond int64, beyond size limits, denormal), big integers <= 128 bits of either sign, ASCII strings 0..2 bytes, one-element arrays, one-member option objects, binaries 0..2 bytes"}},
        {"entry": "format/text.VerifTotalFromURLPath", "clause": "from_urlpath(input; args) over the symbolic jq value domain returns a value or an error value: no Go panic escapes", "bounds": {"values": "nil, bool, any int, 16 float64 class representatives (NaN, +-Inf, +-0, fractions, beyond int64, beyond size limits, denormal), big integers <= 128 bits of either sign, ASCII strings 0..2 bytes, one-element arrays, one-member option objects, binaries 0..2 bytes"}},
        {"entry": "format/xml.VerifTotalFromXmlentities", "clause": "from_xmlentities(input; args) over the symbolic jq value domain returns a value or an error value: no Go panic escapes", "bounds": {"values": "nil, bool, any int, 16 float64 class representatives (NaN, +-Inf, +-0, fractions, beyond int64, beyond size limits, denormal), big integers <= 128 bits of either sign, ASCII strings 0..2 bytes, one-element arrays, one-member option objects, binaries 0..2 bytes"}},
        {"entry": "format/toml.VerifTotalToToml", "clause": "_to_toml(input; args) over the symbolic jq value domain returns a value or an error value: no Go panic escapes", "bounds": {"values": "nil, bool, any int, 16 float64 class representatives (NaN, +-Inf, +-0, fractions, beyond int64, beyond size limits, denormal), big integers <= 128 bits of either sign, ASCII strings 0..2 bytes, one-element arrays, one-member option objects, binaries 0..2 bytes"}},
        {"entry": "format/xml.VerifTotalToXml", "clause": "to_xml(input; args) over the symbolic jq value domain returns a value or an error value: no Go panic escapes", "bounds": {"values": "nil, bool, any int, 16 float64 class representatives (NaN, +-Inf, +-0, fractions, beyond int64, beyond size limits, denormal), big integers <= 128 bits of either sign, ASCII strings 0..2 bytes, one-element arrays, one-member option objects, binaries 0..2 bytes"}},
        {"entry": "format/yaml.VerifTotalToYaml", "clause": "_to_yaml(input; args) over the symbolic jq value domain returns a value or an error value: no Go panic escapes", "bounds": {"values": "nil, bool, any int, 16 float64 class representatives (NaN, +-Inf, +-0, fractions, beyond int64, beyond size limits, denormal), big integers <= 128 bits of either sign, ASCII strings 0..2 bytes, one-element arrays, one-member option objects, binaries 0..2 bytes"}},
        {"entry": "pkg/interp.VerifTotalBand", "tier": "thorough", "clause": "band(input; args) over the symbolic jq value domain returns a value or an error value: no Go panic escapes", "bounds": {"values": "nil, bool, any int, 16 float64 class representatives (NaN, +-Inf, +-0, fractions, beyond int64, beyond size limits, denormal), big integers <= 128 bits of either sign, ASCII strings 0..2 bytes, one-element arrays, one-member option objects, binaries 0..2 bytes"}},
        {"entry": "pkg/interp.VerifTotalBor", "tier": "thorough", "clause": "bor(input; args) over the symbolic jq value domain returns a value or an error value: no Go panic escapes", "bounds": {"values": "nil, bool, any int, 16 float64 class representatives (NaN, +-Inf, +-0, fractions, beyond int64, beyond size limits, denormal), big integers <= 128 bits of either sign, ASCII strings 0..2 bytes, one-element arrays, one-member option objects, binaries 0..2 bytes"}},
        {"entry": "pkg/interp.VerifTotalBxor", "tier": "thorough", "clause": "bxor(input; args) over the symbolic jq value domain returns a value or an error value: no Go panic escapes", "bounds": {"values": "nil, bool, any int, 16 float64 class representatives (NaN, +-Inf, +-0, fractions, beyond int64, beyond size limits, denormal), big integers <= 128 bits of either sign, ASCII strings 0..2 bytes, one-element arrays, one-member option objects, binaries 0..2 bytes"}},
        {"entry": "pkg/interp.VerifTotalToValue", "tier": "thorough", "clause": "_tovalue(input; args) over the symbolic jq value domain returns a value or an error value: no Go panic escapes", "bounds": {"values": "nil, bool, any int, 16 float64 class representatives (NaN, +-Inf, +-0, fractions, beyond int64, beyond size limits, denormal), big integers <= 128 bits of either sign, ASCII strings 0..2 bytes, one-element arrays, one-member option objects, binaries 0..2 bytes"}},
        {"entry": "format/text.VerifTotalToHex", "tier": "thorough", "clause": "to_hex(input; args) over the symbolic jq value domain returns a value or an error value: no Go panic escapes", "bounds": {"values": "nil, bool, any int, 16 float64 class representatives (NaN, +-Inf, +-0, fractions, beyond int64, beyond size limits, denormal), big integers <= 128 bits of either sign, ASCII strings 0..2 bytes, one-element arrays, one-member option objects, binaries 0..2 bytes"}},
        {"entry": "format/text.VerifTotalToBase64", "tier": "thorough", "clause": "_to_base64(input; args) over the symbolic jq value domain returns a value or an error value: no Go panic escapes", "bounds": {"values": "nil, bool, any int, 16 float64 class representatives (NaN, +-Inf, +-0, fractions, beyond int64, beyond size limits, denormal), big integers <= 128 bits of either sign, ASCII strings 0..2 bytes, one-element arrays, one-member option objects, binaries 0..2 bytes"}},
        {"entry": "format/text.VerifTotalFromBase64", "tier": "thorough", "clause": "_from_base64(input; args) over the symbolic jq value domain returns a value or an error value: no Go panic escapes", "bounds": {"values": "nil, bool, any int, 16 float64 class representatives (NaN, +-Inf, +-0, fractions, beyond int64, beyond size limits, denormal), big integers <= 128 bits of either sign, ASCII strings 0..2 bytes, one-element arrays, one-member option objects, binaries 0..2 bytes"}},
        {"entry": "format/text.VerifTotalToURLEncode", "tier": "thorough", "clause": "to_urlencode(input; args) over the symbolic jq value domain returns a value or an error value: no Go panic escapes", "bounds": {"values": "nil, bool, any int, 16 float64 class representatives (NaN, +-Inf, +-0, fractions, beyond int64, beyond size limits, denormal), big integers <= 128 bits of either sign, ASCII strings 0..2 bytes, one-element arrays, one-member option objects, binaries 0..2 bytes"}},
        {"entry": "format/text.VerifTotalToURLPath", "tier": "thorough", "clause": "to_urlpath(input; args) over the symbolic jq value domain returns a value or an error value: no Go panic escapes", "bounds": {"values": "nil, bool, any int, 16 float64 class representatives (NaN, +-Inf, +-0, fractions, beyond int64, beyond size limits, denormal), big integers <= 128 bits of either sign, ASCII strings 0..2 bytes, one-element arrays, one-member option objects, binaries 0..2 bytes"}},
        {"entry": "format/text.VerifTotalToStrEnc", "tier": "thorough", "clause": "_to_strencoding(input; args) over the symbolic jq value domain returns a value or an error value: no Go panic escapes", "bounds": {"values": "nil, bool, any int, 16 float64 class representatives (NaN, +-Inf, +-0, fractions, beyond int64, beyond size limits, denormal), big integers <= 128 bits of either sign, ASCII strings 0..2 bytes, one-element arrays, one-member option objects, binaries 0..2 bytes"}},
        {"entry": "format/text.VerifTotalFromStrEnc", "tier": "thorough", "clause": "_from_strencoding(input; args) over the symbolic jq value domain returns a value or an error value: no Go panic escapes", "bounds": {"values": "nil, bool, any int, 16 float64 class representatives (NaN, +-Inf, +-0, fractions, beyond int64, beyond size limits, denormal), big integers <= 128 bits of either sign, ASCII strings 0..2 bytes, one-element arrays, one-member option objects, binaries 0..2 bytes"}},
        {"entry": "format/crypto.VerifTotalToHash", "tier": "thorough", "clause": "_to_hash(input; args) over the symbolic jq value domain returns a value or an error value: no Go panic escapes", "bounds": {"values": "nil, bool, any int, 16 float64 class representatives (NaN, +-Inf, +-0, fractions, beyond int64, beyond size limits, denormal), big integers <= 128 bits of either sign, ASCII strings 0..2 bytes, one-element arrays, one-member option objects, binaries 0..2 bytes"}},
        {"entry": "format/mpeg.VerifTotalNalUnescape", "tier": "thorough", "clause": "nal_unescape(input; args) over the symbolic jq value domain returns a value or an error value: no Go panic escapes", "bounds": {"values": "nil, bool, any int, 16 float64 class representatives (NaN, +-Inf, +-0, fractions, beyond int64, beyond size limits, denormal), big integers <= 128 bits of either sign, ASCII strings 0..2 bytes, one-element arrays, one-member option objects, binaries 0..2 bytes"}}
    ],
    "assumptions": [
        "mapstruct.ToStruct (reflection: creasty/defaults + mitchellh/mapstructure) is replaced by the engine's implementation for string/bool/int/float fields incl. default tags",
        "third-party encoders behind fq's wrappers (BurntSushi/toml, yaml.v3, encoding/xml Encoder methods) are contract stubs: they return; yaml SetIndent's documented precondition is checked",
        "shift amounts in (70, 2^32] (big integer shift amounts: 10 class representatives) and indents in (8, 1024] are excluded: legal values that only make the result large",
        "float64 inputs are 16 class representatives, not all bit patterns: with fully symbolic floats the float->int conversions (fp.to_sbv) leave z3 undecided within the limit (measured: 25 of 68k queries unknown at 30 s, workers stuck)",
        "number formatting of symbolic numbers (strconv) returns a placeholder numeral",
        "paths on which symbolic text is not ASCII are cut where the code converts between strings and runes",
    ],
    "outside": ["functions defined in jq text", "functions that need evaluator state or the OS (_eval, _stdio_*, _display, _hexdump, _print_color_json, _readline, history, open, _decode, _registry, _global_state, _match_binary, _query_*)",
                "to_urlquery/from_urlquery/to_url/from_url/to_xmlentities/_to_csv/_to_json/to_jsonl: exploration does not finish (map keys / replacers over symbolic text, FP-heavy paths): not claimed",
                "everything behind a stub"],
}


PROPS["C10"] = {
    "level": "model_checking",
    "explanation": "the hex and ASCII column writers of the dump: every byte written appears exactly once in the cell (row, column) its offset selects, padding cells blank, separators as the layout requires, for every line width, start offset and split of the data over Write calls; the per-byte renderings Pair and SafeASCII for all 256 bytes; the two's complement and zigzag helpers used when displaying values",
    "wall_quick": 600, "wall_thorough": 3600,
    "harnesses": [
        {"entry": "internal/hexpairwriter.VerifHexPairWriter", "group": "hexw", "clause": "hex column layout", "bounds": {"width": "1..4", "start": "0..width-1", "bytes": "0..2*width+1", "writes": "3 chunks at every split"}},
        {"entry": "internal/hexpairwriter.VerifHexPairWriterWide", "group": "hexw", "tier": "thorough", "clause": "hex column layout, widths 1..16", "bounds": {"width": "1..16"}},
        {"entry": "internal/hexpairwriter.VerifPair", "clause": "Pair(c) = two lower-case hex digits, all 256 bytes", "bounds": {}},
        {"entry": "internal/asciiwriter.VerifASCIIWriter", "group": "asciiw", "clause": "ASCII column layout", "bounds": {"width": "1..5"}},
        {"entry": "internal/asciiwriter.VerifASCIIWriterWide", "group": "asciiw", "tier": "thorough", "clause": "ASCII column layout, widths 1..16", "bounds": {"width": "1..16"}},
        {"entry": "internal/asciiwriter.VerifSafeASCII", "clause": "SafeASCII(c): printable itself, else a dot; all 256 bytes", "bounds": {}},
        {"entry": "internal/mathx.VerifTwosComplementZigZag", "clause": "TwosComplement for widths 1..64 and ZigZag", "bounds": {}},
        {"entry": "internal/colorjson.VerifEncodeValue", "clause": "JSON output equals the value: scalars (9 ints, 20 floats incl. the exponent formatting boundaries 1e-6, 1e-9, 1e-10, 1e-100, 1e21, 1e22, 3 big integers printed exactly), arrays and objects: fq's encoder gives the text of the reference encoder (gojq.Marshal)", "bounds": {"elements": "<= 2"}},
        {"entry": "internal/columnwriter.VerifColumnAlign", "clause": "row alignment of the dump's column writer: a cell of any width (15 widths up to 200, incl. the hex column widths of line_bytes 16, 27, 28, 32, 54, 64) is padded to exactly its width, so the next column starts at the same offset on every row", "bounds": {"width": "15 values 0..200", "cell text": "0..3 characters, 2 rows"}},
        {"entry": "pkg/interp.VerifHexdumpLayout", "group": "dump", "clause": "the real hexdump()/dump()/dumpEx()/columnwriter path on a binary over symbolic bytes: every byte overlapping the value's bit range is shown exactly once, in the row whose address plus the cell's column is its offset, as its hex digits and ASCII rendering; all other cells blank; row addresses consecutive multiples of the line width", "bounds": {"buffer_bytes": 3, "line_bytes": "1..4", "start/len": "every byte position, bit offsets 0 and 5 / length remainders 0 and 4", "addrbase": 16, "display_bytes": "0 (no truncation)"}},
        {"entry": "pkg/interp.VerifHexdumpLayoutWide", "group": "dump", "tier": "thorough", "clause": "same, 4 bytes, line widths 1..6", "bounds": {"buffer_bytes": 4, "line_bytes": "1..6"}},
    ],
    "assumptions": ["fmt.Fprintf/Fprint in dumpEx are the engine's implementation of the verbs used (%s %d %v on concrete arguments; fq's ansi.colorFormatter is rendered as the concatenation of its parts); the bytes themselves reach the columns through the real hexpairwriter/asciiwriter/columnwriter code", "the layout harnesses use a one/two character identity rendering per byte (the writers take the rendering as a parameter; production passes Pair / SafeASCII, checked on their own)"],
    "outside": ["dump of decode trees (tree column text, nested roots, array truncation), display_bytes truncation, colour escapes, address bases other than 16", "number formatting (strconv) of symbolic numbers and DigitsInBase (float log)", "colorjson indentation/colour (C07)"],
}

PROPS["C16"] = {
    "level": "model_checking",
    "explanation": "msgpack and cbor: the real decoders are run through decode.Decode on symbolic inputs and the resulting tree is compared with an independent reference decoder written from the specification in the harness: wire type symbol, integer/float/bool/nil value, payload byte range, container shape, error iff truncated/invalid, trailing bytes as a gap",
    "wall_quick": 1200, "wall_thorough": 7200,
    "harnesses": [
        {"entry": "format/msgpack.VerifMsgpack", "group": "msgpack", "clause": "msgpack: all 37 wire types, containers up to depth 2 with up to 2 elements, payloads up to 3 bytes", "bounds": {"input_bytes": "0..5"}},
        {"entry": "format/msgpack.VerifMsgpackLong", "group": "msgpack", "tier": "thorough", "clause": "msgpack, longer inputs", "bounds": {"input_bytes": "0..8"}},
        {"entry": "format/cbor.VerifCborScalar", "clause": "cbor: integers in all count forms, false/true/null, float16/32/64, definite byte/text strings; 64-bit declared lengths", "bounds": {"input_bytes": "0..10", "payload": "<= 3 bytes"}},
        {"entry": "format/cbor.VerifCborArray", "clause": "cbor: definite and indefinite arrays of one-byte integers", "bounds": {"input_bytes": "1..4"}},
        {"entry": "format/cbor.VerifCborIndefiniteLong", "clause": "cbor: indefinite array of 29..34 elements keeps all elements", "bounds": {"elements": "29..34"}},
        {"entry": "format/bencode.VerifBencodeInt", "group": "bencode-int", "clause": "bencode: i<sign><digits>e with 1, 2, 18 and 19 digits (leading digits those of the largest int64, last three symbolic; both signs, down to the minimum int64) is exactly that integer, spanning exactly its text", "bounds": {"digits": "1,2,18,19", "symbolic_digits": 3}},
        {"entry": "format/bencode.VerifBencodeIntLong", "group": "bencode-int", "tier": "thorough", "clause": "same for 10 digit counts", "bounds": {"digits": "1,2,3,5,9,10,15,17,18,19"}},
        {"entry": "format/bencode.VerifBencodeString", "clause": "bencode: <len>:<bytes> is exactly the declared bytes", "bounds": {"len": "0..3", "payload": "symbolic"}},
        {"entry": "format/bencode.VerifBencodeList", "clause": "bencode: list / dictionary of small integers: element order and values", "bounds": {"elements": 2}},
    ],
    "assumptions": ["text payloads: byte range and length only (UTF-8 decoding stubbed as identity)"],
    "outside": ["the jq reducers _<format>_torepr (jq text)", "bson, asn1_ber value equivalence (only their crash freedom is checked, C06)", "bencode: fully symbolic 19 digit integers (64-bit multiplication chains leave the solver undecided: leading digits are concrete), nested containers beyond depth 1", "json/yaml/toml/xml/csv (third-party parsers): not applicable", "cbor maps, tags, indefinite strings; simple values other than false/true/null (not decoded by fq: documented TODO)"],
}

PROPS["C06"] = {
    "level": "model_checking",
    "gen": gen_C06,
    "explanation": "decode.Decode over N fully symbolic bytes, forced and unforced; every Go runtime check on every path is a solver query and a panic escaping Decode (through the real recoverfn.Run) is a violation. (a) every format registered in the current tree (enumerated from the interp.RegisterFormat calls on every run), entered through its real *decode.Format looked up in interp.DefaultRegistry, dependency groups replaced by a stub format that fails / consumes nothing / consumes everything, input size per format = the calibrated size whose path space is exhausted (harness/c06_bounds.json; 0..32 bytes); (b) hand written deeper harnesses for msgpack, cbor, bson, bencode, asn1_ber, luajit",
    "wall_quick": 1500, "wall_thorough": 10800, "split_max": 300,
    "harnesses": [
        {"entry": "format/msgpack.VerifNoCrash", "group": "nc-msgpack", "clause": "msgpack never panics", "bounds": {"input_bytes": "0..4"}},
        {"entry": "format/msgpack.VerifNoCrashLong", "group": "nc-msgpack", "tier": "thorough", "clause": "msgpack never panics", "bounds": {"input_bytes": "0..6"}},
        {"entry": "format/cbor.VerifNoCrash", "group": "nc-cbor", "clause": "cbor never panics", "bounds": {"input_bytes": "0..3"}},
        {"entry": "format/cbor.VerifNoCrashLong", "group": "nc-cbor", "tier": "thorough", "clause": "cbor never panics", "bounds": {"input_bytes": "0..4"}},
        {"entry": "format/bson.VerifNoCrash", "group": "nc-bson", "clause": "bson never panics", "bounds": {"input_bytes": "0..6"}},
        {"entry": "format/bson.VerifNoCrashLong", "group": "nc-bson", "tier": "thorough", "clause": "bson never panics", "bounds": {"input_bytes": "0..8"}},
        {"entry": "format/bencode.VerifNoCrash", "group": "nc-bencode", "clause": "bencode never panics", "bounds": {"input_bytes": "0..4"}},
        {"entry": "format/bencode.VerifNoCrashLong", "group": "nc-bencode", "tier": "thorough", "clause": "bencode never panics", "bounds": {"input_bytes": "0..5"}},
        {"entry": "format/asn1.VerifNoCrash", "group": "nc-asn1", "clause": "asn1_ber never panics", "bounds": {"input_bytes": "0..4"}},
        {"entry": "format/luajit.VerifNoCrash", "group": "nc-luajit", "clause": "luajit (header) never panics", "bounds": {"input_bytes": "0..8"}},
        {"entry": "format/luajit.VerifNoCrashLong", "group": "nc-luajit", "tier": "thorough", "clause": "luajit (header) never panics", "bounds": {"input_bytes": "0..10"}},
        {"entry": "format/luajit.VerifNoCrashBCIns", "clause": "one luajit bytecode instruction entered directly, any opcode byte", "bounds": {"input_bytes": "0..4"}},
    ],
    "assumptions": ["hand written harnesses: nested format groups are empty (the harness bypasses the registry): only the decoder's own code is covered",
                    "generated harnesses: nested formats are a stub (fails / consumes nothing / consumes all; out value nil): the parent's handling of a nested decode's success and failure is covered, the nested decoders themselves only as top-level formats; format options are the registered defaults",
                    "text decoding stubbed as identity"],
    "outside": ["inputs longer than the stated N per format (most decoders need more bytes than that to get past their headers: the claim is about the code reachable within N bytes)", "the probe over all formats", "formats listed under formats_skipped in the evidence (third-party text parsers, decoders that need a typed out value from a real nested format)", "non-default format options"],
}


for _p, _pref, _clause in (("C03", "pkg/decode.VerifTree", "tree invariants on program rootarray: a format whose root is an array (gap fields are appended to the array)"),
                           ("C04", "pkg/decode.VerifCover", "FillGaps cover + gap content on program rootarray"),
                           ("C12", "pkg/interp.VerifNav", "path <-> navigation on the trees of program rootarray (gap fields inside an array)"),
                           ("C05", "pkg/interp.VerifToBits", "tobits/tobytes of every value of the trees of program rootarray")):
    PROPS[_p]["harnesses"].append({"entry": _pref + "RootArray", "clause": _clause, "bounds": {"buffer_bytes": "0..6"}})

PROPS["C14"] = {
    "level": "model_checking",
    "explanation": "hex, the four base64 variants and the URL component/path escapers (the real net/url code is executed), entered through the closures fq registers with the jq VM (looked up in interp.DefaultRegistry at run time, including the argument casting layer): to(b) equals a reference encoder written in the harness, from(to(b)) = b, and from(s) on arbitrary symbolic strings is an error or the reference decoding, never a wrong value",
    "wall_quick": 600, "wall_thorough": 1800,
    "harnesses": [
        {"entry": "format/text.VerifHex", "clause": "to_hex = reference, from_hex(to_hex(b)) = b", "bounds": {"bytes": "0..4"}},
        {"entry": "format/text.VerifFromHexAny", "clause": "from_hex on any string: error unless it is an even number of hex digits of either case, then the reference decoding", "bounds": {"chars": "0..4, any byte values"}},
        {"entry": "format/text.VerifBase64", "clause": "_to_base64 = reference for std/url/rawstd/rawurl; round trip", "bounds": {"bytes": "0..5"}},
        {"entry": "format/text.VerifFromBase64Any", "clause": "_from_base64 (std) on any 4 characters: error or the reference decoding", "bounds": {"chars": "4, any byte values"}},
        {"entry": "format/text.VerifURLEncode", "group": "urlenc", "clause": "to_urlencode output is unreserved characters, '+' and upper-case %XX only; an RFC 3986 reference decoder (with '+' = space) maps it back to the input; from_urlencode(to_urlencode(s)) = s", "bounds": {"bytes": "0..2, any values"}},
        {"entry": "format/text.VerifURLEncode3", "group": "urlenc", "tier": "thorough", "clause": "same, 3 bytes", "bounds": {"bytes": "0..3"}},
        {"entry": "format/text.VerifURLPath", "group": "urlpath", "clause": "to_urlpath output is unreserved characters, the pchar literals $&+=:@ and upper-case %XX only; reference decoding gives the input; from_urlpath(to_urlpath(s)) = s", "bounds": {"bytes": "0..2, any values"}},
        {"entry": "format/text.VerifURLPath3", "group": "urlpath", "tier": "thorough", "clause": "same, 3 bytes", "bounds": {"bytes": "0..3"}},
        {"entry": "format/text.VerifFromURLEncodeAny", "clause": "from_urlencode on any string: error iff a '%' is not followed by two hex digits, else the reference percent-decoding with '+' = space", "bounds": {"chars": "0..4, any byte values"}},
        {"entry": "format/text.VerifFromURLPathAny", "clause": "from_urlpath on any string: error iff malformed escape, else the reference percent-decoding ('+' is itself)", "bounds": {"chars": "0..4, any byte values"}},
    ],
    "assumptions": ["mapstruct.ToStruct (reflection) is the engine's implementation for the option struct {encoding: string}"],
    "outside": ["to_urlquery/from_urlquery/to_url/from_url (maps with symbolic keys: exploration does not finish), text encodings (x/text), radix.jq, hashes, JSON/YAML/TOML/XML/CSV round trips: third-party reflective parsers / jq text / whole-stream loops — not applicable to this technique (DESIGN §5 C14)"],
}


PROPS["C09"] = {
    "level": "model_checking",
    "explanation": "binary values against a reference bit string: the real Binary.JQValueSlice/JQValueIndex/JQValueLength/JQValueKey(size,start,stop,unit,bits,bytes)/JQValueToNumber, toBitReaderEx for numbers, strings, binaries and binary arrays (fast and general path), over symbolic bytes with bit granular ranges in both units",
    "wall_quick": 900, "wall_thorough": 3600,
    "harnesses": [
        {"entry": "pkg/interp.VerifBinaryPadArray", "clause": "a zero padded binary (x|tobits(n), through the real _toBits) as a later member of a binary array: first member bits, exactly the padding zeros, then its own bits, whatever the destination buffer held", "bounds": {"first": "3 bytes, bit granular range", "padded": "1,4,8,11 bits padded to multiples of 3,4,8,12"}},
        {"entry": "pkg/interp.VerifBinarySlice", "clause": "slice = sub-sequence in units", "bounds": {"bytes": 4, "start": "0,3,8,9", "len": "0,1,7,8,9,13,23", "from<=to<=length": "all"}},
        {"entry": "pkg/interp.VerifBinaryIndexKeys", "clause": "index = unit-wide integer; outside is null; size/start/stop (rounded up)/unit/bits/bytes keys", "bounds": {"bytes": 4}},
        {"entry": "pkg/interp.VerifBinaryToNumber", "clause": "tonumber = unsigned big-endian value of the bits", "bounds": {"bits": "<= 23"}},
        {"entry": "pkg/interp.VerifBinaryArrayConcat", "clause": "splitting a binary in two and concatenating through a binary array restores the bits; no bits beyond", "bounds": {"bytes": 3}},
        {"entry": "pkg/interp.VerifBinaryArrayNumbers", "clause": "binary arrays of numbers/strings/big integers: bytes in order; numbers outside 0..255 are an error, never a wrapped byte", "bounds": {"members": "2..3"}},
        {"entry": "pkg/interp.VerifNumberToBits", "clause": "a non-negative number as a binary is its minimal big-endian bit representation (0 is one zero bit)", "bounds": {"value": "any uint64"}},
    ],
    "assumptions": ["slice and index arguments are already clamped the way gojq's funcSlice/funcIndex2 clamp them before calling a JQValue (0 <= from <= to <= length, 0 <= index < length, or -1/-2 for outside): the clamping code itself lives in gojq and is not executed"],
    "outside": ["the jq-level wrappers in binary.jq/decode.jq (explode, tobitsrange, to_hex routing)", "gojq's own clamping of indices", "negative numbers and floats as binaries"],
}

PROPS["C18"] = {
    "level": "model_checking",
    "race": True,
    "explanation": "(a) sequential isolation (2-safety): two decodes of the same symbolic input with the same program parameters that differ only in the arbitrary contents of the shared read buffer (the state that survives from one decode to the next and is handed to nested decodes) produce identical trees, values, ranges and errors; byte slices returned to callers do not alias the shared buffer. (b) concurrency, under the engine's baton scheduler with a vector-clock happens-before race detector (as C20): first use of the process-wide registry by two jobs at once (sync.Once group resolution and sorting), first use of a lazily compiled regexp by two jobs at once, two concurrent decode jobs of one input: every interleaving within the pre-emption bound is free of data races, deadlocks and panics and gives the result of a lone run",
    "technique": "bounded symbolic execution of the real Go SSA; an SMT solver (z3) decides every branch, runtime-fault check and assertion of the sequential 2-safety harnesses; the concurrency harnesses run the real code under the engine's deterministic baton scheduler, every scheduling choice being a decision variable explored exhaustively within the pre-emption bound (no SMT queries are needed for them: their data domain is trivial), a vector-clock happens-before detector decides data races; counterexamples replayed natively (go test -race)",
    "wall_quick": 600, "wall_thorough": 3600,
    "harnesses": [
        {"entry": "pkg/decode.VerifIsolationFlat", "clause": "program flat, two decodes with different read-buffer garbage", "bounds": {"buffer_bytes": "0..6"}},
        {"entry": "pkg/decode.VerifIsolationNested", "clause": "program nested", "bounds": {"buffer_bytes": "0..6"}},
        {"entry": "pkg/decode.VerifIsolationFramed", "clause": "program framed", "bounds": {"buffer_bytes": "0..6"}},
        {"entry": "pkg/decode.VerifIsolationSubformat", "clause": "program subformat (nested decode shares the read buffer)", "bounds": {"buffer_bytes": "0..6"}},
        {"entry": "pkg/decode.VerifNoAlias", "clause": "BytesLen/BytesRange results are unchanged by later reads", "bounds": {"pos": "0..7"}},
        {"entry": "pkg/interp.VerifRegistryConcurrent", "group": "conc", "clause": "two first users of a registry (3 formats, a probe group needing sorting, one dependency): both see the resolved sorted groups of a lone run; no race/deadlock/panic", "bounds": {"threads": 2, "preemptions": 1, "scheduling points": "loads/stores of pkg/interp and of the slices sort it calls, sync operations"}},
        {"entry": "pkg/interp.VerifRegistryConcurrent2", "group": "conc", "tier": "thorough", "clause": "same with 2 pre-emptions", "bounds": {"preemptions": 2}},
        {"entry": "internal/lazyre.VerifLazyREConcurrent", "group": "conc", "clause": "two first users of a lazily compiled regexp (html probe): same compiled regexp, no race/deadlock/panic", "bounds": {"threads": 2, "preemptions": 2}},
        {"entry": "pkg/decode.VerifConcurrentDecode", "group": "conc", "clause": "two concurrent decodes of one 4-byte symbolic input (struct, array, raw field, gap filling): trees equal the lone run's; no race on package-level state of pkg/decode", "bounds": {"threads": 2, "preemptions": 1}},
    ],
    "assumptions": ["sequential consistency (no weak memory effects)", "sync.Mutex/RWMutex/Once/WaitGroup, channels and sync/atomic are the engine's models with their documented happens-before edges"],
    "outside": ["concurrent jq evaluations (Interp.Eval clone, include cache: gojq VM)", "package-level tables of the ~130 format packages", "more than 2 threads", "per-format option deep copy (ParseOptsFn: reflection)", "state kept by third-party packages (e.g. gopacket defragmenter)"],
}

PROPS["C19"] = {
    "level": "model_checking",
    "explanation": "fq's own reassembly callback and dispatch only: TCPConnection.ReassembledSG as one step from an arbitrary connection state with an arbitrary batch (direction, start/end flags, skip count, data), RAWIPFrame version dispatch on frames of length 0..2, Decoder.New endpoint/port attribution for raw endpoints of length 0..3",
    "wall_quick": 600, "wall_thorough": 1800,
    "harnesses": [
        {"entry": "format/inet/flowsdecoder.VerifReassembledSG", "clause": "right direction, other untouched, skip adds exactly the missing count and appends nothing, otherwise exactly the delivered bytes are appended, flags monotone", "bounds": {"buffered": "0..2 bytes per direction", "data": "0..3 bytes", "skip": "-1..2^40"}},
        {"entry": "format/inet/flowsdecoder.VerifRAWIPFrame", "clause": "frames without a valid version nibble (also the empty frame) are an error, never a fault", "bounds": {"frame_bytes": "0..2"}},
        {"entry": "format/inet/flowsdecoder.VerifNewPorts", "clause": "ports big-endian from 2-byte endpoints else 0, addresses attributed to the right side, streams start empty", "bounds": {"endpoint_bytes": "0..3"}},
    ],
    "assumptions": ["the order and content of batches is whatever gopacket's assembler delivers (arbitrary here)"],
    "outside": ["gopacket's assembler, defragmenter and layer parsers (third party: maps, pools, time): segmentations, interleavings, retransmissions, link types are NOT decided", "'nothing after the first missing byte' depends on the assembler's batch order"],
}


PROPS["C08"] = {
    "level": "model_checking",
    "explanation": "reduced form: the jq VM observes a decode value only through the JQValue methods; for each method the result on fq's wrappers (gojqx.Number/String/Boolean/Null with symbolic payloads; the struct and array decode values of the C03 trees, every value) is compared with the reference semantics of the corresponding jq primitive on the plain value (tovalue), written in the harness from the jq manual: length, type, tonumber, tostring, keys (as a set), has, key/index, slice, iteration",
    "wall_quick": 900, "wall_thorough": 3600,
    "harnesses": [
        {"entry": "pkg/interp.VerifJQNumber", "clause": "number wrapper: tovalue/tonumber/type; length = absolute value; keys/has/key/index/slice/each are errors", "bounds": {"payload": "any int, 6 float classes, big integers <= 128 bits of either sign"}},
        {"entry": "pkg/interp.VerifJQString", "clause": "string wrapper: length in code points, slice, errors", "bounds": {"text": "0..3 symbolic ASCII bytes"}},
        {"entry": "pkg/interp.VerifJQOther", "clause": "boolean and null wrappers", "bounds": {}},
        {"entry": "pkg/interp.VerifJQCompoundNested", "clause": "struct/array decode values of program nested vs their plain objects/arrays", "bounds": {"buffer_bytes": "0..6"}},
        {"entry": "pkg/interp.VerifJQCompoundSeek", "clause": "program seek (out of order fields)", "bounds": {"buffer_bytes": "0..6"}},
        {"entry": "pkg/interp.VerifJQCompoundNestedRoot", "clause": "program nestedroot", "bounds": {"buffer_bytes": "0..6"}},
        {"entry": "pkg/interp.VerifJQCompoundLoop", "clause": "program loop (arrays up to 48 elements)", "bounds": {"buffer_bytes": "0..6"}},
        {"entry": "pkg/interp.VerifJQCompoundRootArray", "clause": "program rootarray (gap fields inside an array)", "bounds": {"buffer_bytes": "0..6"}},
    ],
    "assumptions": ["the reference semantics of the jq primitives are written in the harness; gojq's own code (funcLength, funcIndex2, clamping, ...) is NOT executed: that the enumerated JQValue methods are all the ways the VM observes a value is an argument from gojq's structure, not a solver result",
                    "documented differences encoded: struct keys compared as a set (input order), missing names give null"],
    "outside": ["queries as such (the jq VM), regexp/string built-ins, tojson text, Sym/Actual selection (ScalarValue)"],
}


PROPS["C20"] = {
    "level": "model_checking",
    "race": True,
    "technique": "bounded symbolic execution of the real Go SSA (ctxstack, context, iox) under the engine's deterministic baton scheduler: the operation sequence is a symbolic input and every scheduling choice a decision variable, explored exhaustively within the stated operation and pre-emption bounds; a vector-clock happens-before detector decides data races; because no constraint ever relates these variables the case splits are decided without SMT queries (queries=0 in the evidence) - the verdict is the executor's exhaustive bounded exploration; counterexample schedules are replayed natively under go test -race",
    "explanation": "the real ctxstack.Stack with its trigger goroutine (shaped like the one interp.New installs), the real context.WithCancel (interpreted) and iox.CtxWriter: goroutines run under the engine's deterministic baton scheduler, the choice of the next thread at every scheduling point (channel, select, mutex, atomic operations and every load/store made by ctxstack's functions) is an exploration decision, a vector-clock happens-before detector flags unordered conflicting accesses. Sequential histories against a reference stack model; interleavings under a pre-emption bound for panics, deadlocks and data races",
    "wall_quick": 900, "wall_thorough": 7200,
    "harnesses": [
        {"entry": "internal/ctxstack.VerifCtxStackSequential", "group": "seq", "clause": "every sequence of up to 4 operations (push, pop innermost, interrupt, stop), trigger goroutine quiescent after each: exactly the contexts the specification cancels are cancelled", "bounds": {"operations": 4, "depth": "<= 3"}},
        {"entry": "internal/ctxstack.VerifCtxStackSequentialLong", "group": "seq", "tier": "thorough", "clause": "6 operations", "bounds": {"operations": 6}},
        {"entry": "internal/ctxstack.VerifCtxStackInterleaved", "group": "ilv", "clause": "up to 3 operations racing with the trigger goroutine: no panic, no deadlock, no data race, and no level is cancelled that was never the innermost one when an interrupt could be delivered", "bounds": {"operations": 3, "preemptions": 1}},
        {"entry": "internal/ctxstack.VerifCtxStackInterleaved2", "group": "ilv", "tier": "thorough", "clause": "same with 2 pre-emptions", "bounds": {"operations": 3, "preemptions": 2}},
        {"entry": "internal/iox.VerifCtxWriter", "clause": "output written after cancellation is refused; before, it passes through unchanged", "bounds": {"data_bytes": 3}},
    ],
    "assumptions": ["sequential consistency (no weak memory effects)", "the data domain is trivial here: the solver's role is only to enumerate schedule and operation choices within the bound; races are confirmed natively by go test -race on the same operation sequence"],
    "outside": ["real signal delivery (cli.go)", "the REPL jq code", "more than 2 threads", "ctxreadseeker"],
}


PROPS["C07"] = {
    "level": "model_checking",
    "explanation": "REDUCED claim: only the Go kernel of C07 that produces JSON text. Every JSON output line of fq and its tojson override go through internal/colorjson.Encoder; the harnesses run it and the real encoder of the embedded reference engine (gojq.Marshal, same executor) on the same symbolic value and assert byte equality: strings of arbitrary bytes (every escape class, DEL, invalid/overlong UTF-8), number class representatives at every formatting boundary, big integers, arrays and objects (key order), values behind ValueFn; indentation and colouring are shown to add only removable decoration with the exact indent width. The jq-text overrides (binary.jq, funcs.jq, json.jq), the regular-expression functions (match.go, Go regexp over symbolic text) and fromjson (encoding/json, reflection) are NOT covered: they run in the gojq VM / reflective parsers (DESIGN §6)",
    "wall_quick": 1200, "wall_thorough": 7200,
    "harnesses": [
        {"entry": "internal/colorjson.VerifEncodeString", "clause": "string -> JSON text equals the reference engine's", "bounds": {"bytes": "0..3, any values"}},
        {"entry": "internal/colorjson.VerifEncodeString4", "tier": "thorough", "clause": "same, 4 bytes", "bounds": {"bytes": "0..4"}},
        {"entry": "internal/colorjson.VerifEncodeValue", "clause": "scalars (9 ints, 20 floats incl. NaN/Inf/-0/1e-6/1e21 boundaries, 3 big integers, strings <= 3 bytes), arrays and objects of up to two small elements: compact text equals the reference engine's", "bounds": {"elements": "<= 2", "keys": "7 representatives"}},
        {"entry": "internal/colorjson.VerifEncodeNested", "tier": "thorough", "clause": "same with one level of nesting inside the elements", "bounds": {"depth": 2}},
        {"entry": "internal/colorjson.VerifEncodeIndentColor", "clause": "indent (9 widths x spaces/tabs, through every threshold of writeIndentInternal's doubling loop) and colour: stripping the decoration gives the reference text; each line is indented depth x width", "bounds": {"shapes": "12 container shapes of depth <= 2 around a symbolic one-byte string", "indent": "0,1,2,7,9,16,17,33,50"}},
        {"entry": "internal/colorjson.VerifEncodeValueFn", "clause": "values behind ValueFn (decode values) are encoded as their plain JSON value", "bounds": {}},
    ],
    "assumptions": ["number -> decimal text runs the real strconv/big code on concrete representatives (symbolic numbers would be replaced by the engine's placeholder numeral, so they are not used here)",
                    "object keys are drawn from 7 representatives (the executor's maps need concrete keys); key text uses the same encodeString as values"],
    "outside": ["jq-text overrides in binary.jq/funcs.jq/json.jq", "regular-expression built-ins (match.go)", "fromjson / encoding/json", "program-level equivalence with gojq over a program grammar"],
}
