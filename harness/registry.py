# Registry of harnesses per property: entry = <package dir relative to the repo>.<Func>
# tier: "quick" harnesses run in both tiers; "thorough" only in the thorough tier;
# harnesses sharing a "group" are alternatives: in the thorough tier the thorough
# member replaces the quick member.

TRUSTED_BASE = [
    "go/packages + go/types + go/ssa (golang.org/x/tools v0.29.0): Go source -> SSA",
    "gosym: the engine's implementation of each SSA instruction, of Go integer/float semantics as SMT terms, and of its intrinsics (sync, sync/atomic, errors.Is/As, internal/bytealg, unsafe.String/Slice, math bit casts)",
    "z3 5.1.0: every sat/unsat verdict",
    "native replay (go test -overlay) confirms every counterexample and a sample of completed paths",
]

COMMON_ASSUMPTIONS = [
    "bounds listed per harness (buffer sizes, widths, operation counts) — inputs outside them are outside the claim",
    "fmt.Sprintf/Errorf are contract stubs (message text is not checked)",
    "map iteration order is fixed (sorted keys) in the engine",
    "package initialisers listed under package_inits_not_run were not executed (their globals are zero in the engine)",
]

EXTRA_OVERLAY = {}

PROPS = {}

PROPS["C01"] = {
    "level": "model_checking",
    "explanation": "bounded symbolic execution of the real bit/byte readers and writers against a bit-by-bit reference contract; stateful readers additionally by one inductive step from an arbitrary state satisfying the representation invariant, and by bounded operation histories through the public API",
    "wall_quick": 1500, "wall_thorough": 10800,
    "harnesses": [
        {"entry": "pkg/bitio.VerifRead64", "clause": "Read64 = big-endian value of bits [first, first+n)", "asserts": ["Read64 value"],
         "bounds": {"buffer_bytes": 16, "nBits": "0..64", "firstBit": "0..128"}},
        {"entry": "pkg/bitio.VerifWrite64", "clause": "Write64 writes exactly the n bits of v, nothing else changes", "asserts": ["Write64 bits"],
         "bounds": {"buffer_bytes": 12, "nBits": "0..64", "firstBit": "0..96", "precondition": "v < 2^nBits (all callers)"}},
        {"entry": "pkg/bitio.VerifRW64Contract", "clause": "nBits outside 0..64 panics (documented contract)", "bounds": {"nBits": "any int64 outside 0..64"}},
        {"entry": "pkg/bitio.VerifCopyBufBits", "group": "copybuf", "clause": "copyBufBits copies n bits between arbitrary alignments, optional zero fill of the last byte",
         "asserts": ["copyBufBits bits"], "bounds": {"bytes": 11, "starts": "0..8", "n": "0..66"}},
        {"entry": "pkg/bitio.VerifCopyBufBitsWide", "group": "copybuf", "tier": "thorough", "clause": "copyBufBits, wider bounds", "asserts": ["copyBufBits bits"],
         "bounds": {"bytes": 20, "starts": "0..15", "n": "0..131"}},
        {"entry": "pkg/bitio.VerifReadFull", "group": "readfull", "clause": "ReadFull/ReadAtFull stitch arbitrary short reads", "bounds": {"source_bits": "11..14", "n": "0..6", "at": "0..7", "short_reads": "any count in [1,possible] per call"}},
        {"entry": "pkg/bitio.VerifReadFullWide", "group": "readfull", "tier": "thorough", "clause": "ReadFull/ReadAtFull, wider bounds", "bounds": {"source_bits": "0..16", "n": "0..11", "at": "0..16"}},
        {"entry": "pkg/bitio.VerifIOBitReadSeekerReadAt", "clause": "IOBitReadSeeker.ReadBitsAt over bytes.Reader, second call (stale internal buffer)",
         "bounds": {"source_bytes": "0..5", "n": "0..20", "off": "0..8*len+9"}},
        {"entry": "pkg/bitio.VerifIOBitReadSeekerSeekRead", "clause": "IOBitReadSeeker.SeekBits (3 whences) then ReadBits", "bounds": {"source_bytes": "0..4", "off": "-34..34", "n": "0..12"}},
        {"entry": "pkg/bitio.VerifSectionReaderStep", "clause": "SectionReader: one ReadBitsAt/ReadBits/SeekBits/Clone from an arbitrary valid state (inductive step, covers histories of any length)",
         "bounds": {"source_bits": "0..32 symbolic", "base/off/limit": "symbolic", "n": "-1..18"}},
        {"entry": "pkg/bitio.VerifMultiReaderStep", "group": "multi", "clause": "MultiReader over 1..2 sub sources of symbolic length: constructor prefix sums + one step from an arbitrary valid state",
         "bounds": {"sub_readers": "1..2", "sub_bits": "0..16 symbolic", "n": "0..12"}},
        {"entry": "pkg/bitio.VerifMultiReaderStep3", "group": "multi", "tier": "thorough", "clause": "MultiReader over 1..3 sub sources", "bounds": {"sub_readers": "1..3"}},
        {"entry": "pkg/bitio.VerifLimitReaderStep", "clause": "LimitReader: one ReadBits from an arbitrary state", "bounds": {"source_bits": "0..24", "limit": "-2..28"}},
        {"entry": "pkg/bitio.VerifBufferWriteRead", "clause": "Buffer is a FIFO of bits; zero padded reads; Bits() content", "bounds": {"writes": "0..24 and 0..17 bits", "read": "0..30"}},
        {"entry": "pkg/bitio.VerifBufferBitsLen", "clause": "Buffer.Bits reports the unread bit count", "bounds": {"write": "0..16", "read": "0..16"}},
        {"entry": "pkg/bitio.VerifIOReader", "clause": "IOReader: byte view = bits ++ zero pad, once, for any read sizes (including zero-length reads)", "bounds": {"source_bits": "0..24", "read_sizes": "0..3,1..2,4,4"}},
        {"entry": "pkg/bitio.VerifIOReadSeeker", "group": "iors", "clause": "IOReadSeeker: Read, Seek(any whence), Read returns the bytes at the target", "bounds": {"source_bits": "12..24", "first_read": "0..3 bytes"}},
        {"entry": "pkg/bitio.VerifIOReadSeekerLong", "group": "iors", "tier": "thorough", "clause": "IOReadSeeker with a source > 64 bits (byte position reaches 8)", "bounds": {"source_bits": "68..80", "first_read": "0..16 bytes"}},
        {"entry": "pkg/bitio.VerifIOBitWriter", "clause": "IOBitWriter output = written bits ++ zero pad after Flush", "bounds": {"writes": "0..24 and 0..13 bits"}},
        {"entry": "internal/aheadreadseeker.VerifAheadHistory", "group": "aheadhist", "clause": "aheadreadseeker: every 3-operation history through the public API equals a plain reader", "bounds": {"data_bytes": 5, "minRead": "1,2,4", "ops": 3}},
        {"entry": "internal/aheadreadseeker.VerifAheadHistory4", "group": "aheadhist", "tier": "thorough", "clause": "aheadreadseeker: 4-operation histories", "bounds": {"ops": 4}},
        {"entry": "internal/aheadreadseeker.VerifAheadStep", "clause": "aheadreadseeker: one operation from an arbitrary state satisfying the cache invariant keeps the invariant (covers histories of any length)",
         "bounds": {"data_bytes": 6, "cache": "0..4 bytes"}},
        {"entry": "internal/progressreadseeker.VerifProgressHistory", "group": "proghist", "clause": "progressreadseeker is a transparent pass-through; progress monotone and <= total", "bounds": {"ops": 2, "precision": "1..4", "totalSize": "1..7 (file grown/shrunk)"}},
        {"entry": "internal/progressreadseeker.VerifProgressHistory3", "group": "proghist", "tier": "thorough", "clause": "progressreadseeker, 3 operations", "bounds": {"ops": 3}},
        {"entry": "internal/bitiox.VerifZeroStep", "clause": "ZeroReadAtSeeker: one step from an arbitrary state", "bounds": {"bits": "0..40 symbolic"}},
        {"entry": "internal/bitiox.VerifLenRange", "clause": "bitiox.Len / bitiox.Range", "bounds": {"source_bits": "0..24 symbolic"}},
        {"entry": "internal/bitiox.VerifCopyBits", "clause": "bitiox.CopyBits = bits ++ zero pad", "bounds": {"bits": "0..24", "first": "0..7"}},
        {"entry": "internal/bitiox.VerifComposition", "clause": "Multi(Zero(pad), Section(Section(BitReader))) — the stack binaries and nested decodes build", "bounds": {"pad": "0..7", "first": "0..9", "len": "0..14"}},
    ],
    "assumptions": [
        "Write64 precondition: v < 2^nBits (true for all callers)",
        "SectionReader invariant: 0 <= base <= limit <= source length, base <= cursor (constructor precondition enforced by bitiox.Range)",
        "reference sources return EOF together with data only when the read was cut short by the end (as every fq reader does)",
        "negative read offsets are outside the claim (as for io.ReaderAt)",
    ],
    "outside": ["ctxreadseeker (goroutine pass-through)", "OS files (bytes.Reader stands in)", "buffers beyond the stated sizes", "cache blocks > 4 bytes", "IOReadSeeker.Seek(SeekEnd) on a source whose length is not a multiple of 8"],
}
