// Package vrt is the harness runtime. This file is the NATIVE implementation
// (used for replay under `go test -overlay`); the symbolic engine intercepts
// every exported function of this package and never executes these bodies.
package vrt

import (
	"encoding/json"
	"fmt"
	"math"
	"os"
	"strings"
	"time"
)

type replayFile struct {
	Model map[string]uint64 `json:"model"`
}

var (
	model    map[string]uint64
	nameCnt  = map[string]int{}
	Trace    []string
	loaded   bool
	Failures []string
)

// AssertFailure is the panic value of a failed Assert in native mode.
type AssertFailure struct{ Msg string }

func (a AssertFailure) Error() string { return "VERIF-ASSERT " + a.Msg }

// AssumeFailure means the replayed model does not satisfy a harness assumption.
type AssumeFailure struct{ Msg string }

func (a AssumeFailure) Error() string { return "VERIF-ASSUME-INFEASIBLE " + a.Msg }

// StopPath is the panic value of Stop.
type StopPath struct{ Why string }

// Reset clears per-run state and (re)loads the replay file named by VERIF_REPLAY.
func Reset() {
	nameCnt = map[string]int{}
	Trace = nil
	Failures = nil
	model = map[string]uint64{}
	loaded = true
	p := os.Getenv("VERIF_REPLAY")
	if p == "" {
		return
	}
	b, err := os.ReadFile(p)
	if err != nil {
		panic(err)
	}
	var rf replayFile
	if err := json.Unmarshal(b, &rf); err != nil {
		panic(err)
	}
	if rf.Model != nil {
		model = rf.Model
	}
}

func uniq(name string) string {
	if !loaded {
		Reset()
	}
	n := nameCnt[name]
	nameCnt[name] = n + 1
	if n == 0 {
		return name
	}
	return fmt.Sprintf("%s#%d", name, n)
}

func get(name string) uint64 { return model[uniq(name)] }

func Symbolic() bool { return false }

func Bytes(name string, n int) []byte {
	b := make([]byte, n)
	for i := range b {
		b[i] = byte(get(fmt.Sprintf("%s[%d]", name, i)))
	}
	return b
}

func Bool(name string) bool       { return get(name) != 0 }
func Uint8(name string) uint8     { return uint8(get(name)) }
func Uint16(name string) uint16   { return uint16(get(name)) }
func Uint32(name string) uint32   { return uint32(get(name)) }
func Uint64(name string) uint64   { return get(name) }
func Uint(name string) uint       { return uint(get(name)) }
func Int8(name string) int8       { return int8(get(name)) }
func Int16(name string) int16     { return int16(get(name)) }
func Int32(name string) int32     { return int32(get(name)) }
func Int64(name string) int64     { return int64(get(name)) }
func Int(name string) int         { return int(get(name)) }
func Float64(name string) float64 { return math.Float64frombits(get(name)) }
func Float32(name string) float32 { return math.Float32frombits(uint32(get(name))) }

// IntRange returns a symbolic int in [lo,hi] (inclusive) and case-splits it.
func IntRange(name string, lo, hi int) int {
	v := Int(name)
	Assume(lo <= v)
	Assume(v <= hi)
	return v
}

// Choice returns a case-split value in [0,n).
func Choice(name string, n int) int { return IntRange(name, 0, n-1) }

func Assume(c bool) {
	if !c {
		panic(AssumeFailure{"assumption violated by replay model"})
	}
}

func Assert(c bool, msg string) {
	if !c {
		Failures = append(Failures, msg)
		panic(AssertFailure{msg})
	}
}

// AssertKnown is Assert, except that counterexamples satisfying sig are
// attributed to the known finding id.
func AssertKnown(c bool, msg string, id string, sig bool) {
	if !c {
		if sig {
			msg = msg + " [known:" + id + "]"
		}
		Failures = append(Failures, msg)
		panic(AssertFailure{msg})
	}
}

func Cover(label string, c bool) {}

// Split is an exploration directive (case split on the value); identity natively.
func Split(x int64) int64    { return x }
func SplitU(x uint64) uint64 { return x }
func SplitInt(x int) int     { return x }

// IteU64 is c ? a : b without a control-flow fork in the engine.
func IteU64(c bool, a, b uint64) uint64 {
	if c {
		return a
	}
	return b
}

// IteI64 is c ? a : b without a control-flow fork in the engine.
func IteI64(c bool, a, b int64) int64 {
	if c {
		return a
	}
	return b
}

// Threads switches the engine's goroutine scheduler on: schedules with at most
// maxPreemptions pre-emptions are explored; loads and stores made by functions of
// the watched packages (path suffixes) are scheduling points and are checked for
// data races. Natively a no-op (real goroutines; run with -race).
func Threads(maxPreemptions int, watch ...string) {}

// Quiesce lets all other goroutines run until none of them can make progress.
func Quiesce() { time.Sleep(20 * time.Millisecond) }

// Stop ends the current path without verdict (outside the stated bound).
func Stop(why string) { panic(StopPath{why}) }

// Observe records values for engine-vs-native differential runs.
func Observe(label string, vs ...any) {
	var sb strings.Builder
	sb.WriteString(label)
	for _, v := range vs {
		sb.WriteString(" ")
		fmt.Fprintf(&sb, "%v", v)
	}
	Trace = append(Trace, sb.String())
}

// F16ToF32Ref is the reference binary16 -> binary32 conversion (exact).
func F16ToF32Ref(h uint16) float32 {
	sign := uint32(h>>15) & 1
	exp := int(h>>10) & 0x1f
	frac := uint32(h & 0x3ff)
	var f float64
	switch {
	case exp == 0:
		f = math.Ldexp(float64(frac), -24)
	case exp == 31:
		if frac == 0 {
			f = math.Inf(1)
		} else {
			f = math.NaN()
		}
	default:
		f = math.Ldexp(float64(frac|0x400), exp-25)
	}
	if sign == 1 {
		f = math.Copysign(f, -1)
	}
	return float32(f)
}

// UF64 is an uninterpreted function of its arguments (native: a fixed mixing function).
func UF64(name string, args ...uint64) uint64 {
	h := uint64(1469598103934665603)
	for _, c := range []byte(name) {
		h = (h ^ uint64(c)) * 1099511628211
	}
	for _, a := range args {
		h = (h ^ a) * 1099511628211
	}
	return h
}

// ---- native job runner (used by the generated replay test) ----

type job struct {
	ID      string            `json:"id"`
	Harness string            `json:"harness"`
	Model   map[string]uint64 `json:"model"`
	// Repeat > 1: schedule-dependent counterexample (data race found by the engine's
	// scheduler): the same operation sequence is run up to Repeat times under the Go
	// race detector, stopping at the first run that does not end normally
	Repeat int `json:"repeat,omitempty"`
}

type jobResult struct {
	ID      string   `json:"id"`
	Harness string   `json:"harness"`
	Outcome string   `json:"outcome"` // OK, ASSERT, PANIC, INFEASIBLE, STOP
	Msg     string   `json:"msg"`
	Trace   []string `json:"trace"`
}

func runOne(fn func()) (outcome, msg string) {
	defer func() {
		if r := recover(); r != nil {
			switch p := r.(type) {
			case AssertFailure:
				outcome, msg = "ASSERT", p.Msg
			case AssumeFailure:
				outcome, msg = "INFEASIBLE", p.Msg
			case StopPath:
				outcome, msg = "STOP", p.Why
			default:
				outcome, msg = "PANIC", fmt.Sprint(r)
			}
		}
	}()
	fn()
	return "OK", ""
}

// RunJobs executes the jobs listed in the file named by VERIF_JOBS and prints
// one "VERIF-NATIVE {json}" line per job.
func RunJobs(fns map[string]func()) {
	p := os.Getenv("VERIF_JOBS")
	if p == "" {
		return
	}
	b, err := os.ReadFile(p)
	if err != nil {
		panic(err)
	}
	var jobs []job
	if err := json.Unmarshal(b, &jobs); err != nil {
		panic(err)
	}
	for _, j := range jobs {
		fn := fns[j.Harness]
		if fn == nil {
			continue
		}
		nameCnt = map[string]int{}
		Trace = nil
		Failures = nil
		model = j.Model
		if model == nil {
			model = map[string]uint64{}
		}
		loaded = true
		fmt.Printf("VERIF-NATIVE-START %s\n", j.ID)
		os.Stdout.Sync()
		outcome, msg := runOne(fn)
		for k := 1; k < j.Repeat && outcome == "OK"; k++ {
			nameCnt = map[string]int{}
			Trace = nil
			Failures = nil
			outcome, msg = runOne(fn)
		}
		rb, _ := json.Marshal(jobResult{ID: j.ID, Harness: j.Harness, Outcome: outcome, Msg: msg, Trace: Trace})
		fmt.Printf("VERIF-NATIVE %s\n", rb)
	}
}
