package decode

import (
	vrt "github.com/wader/fq/internal/zzvrt"
	"github.com/wader/fq/pkg/scalar"
)

// VerifUintAssertBytes: a stored checksum is marked valid iff it equals the
// big-endian value of the computed sum bytes; asserting variants fail iff invalid.
func VerifUintAssertBytes() {
	n := []int{1, 2, 4, 8}[vrt.Choice("len", 4)]
	bs := vrt.Bytes("sum", 8)[:n]
	actual := vrt.Uint64("actual")
	endian := Endian(vrt.Choice("endian", 2))
	isErr := vrt.Choice("assert", 2) == 1
	var want uint64
	for _, b := range bs {
		want = want<<8 | uint64(b)
	}
	s, err := UintAssertBytes(scalar.Uint{Actual: actual}, isErr, endian, bs)
	vrt.Cover("valid", actual == want)
	vrt.Cover("invalid", actual != want)
	if actual == want {
		vrt.Assert(s.Description == "valid" && err == nil, "checksum: equal to the computed sum is valid")
	} else {
		vrt.Assert(s.Description == "invalid", "checksum: any difference is marked invalid")
		vrt.Assert((err != nil) == isErr, "checksum: asserting variant fails iff invalid")
	}
	vrt.Assert(s.Actual == actual, "checksum: value unchanged")
}
