package decode

import (
	"math"
	"math/big"

	vrt "github.com/wader/fq/internal/zzvrt"
	"github.com/wader/fq/pkg/bitio"
)

// ---------------------------------------------------------------------------
// references

func zzBit(data []byte, i int64) uint64 { return bitio.ZZRefBit(data, i) }

// zzU is the unsigned big-endian value of bits [pos, pos+n) (n concrete, 0..64).
func zzU(data []byte, pos int64, n int) uint64 {
	var v uint64
	for i := 0; i < n; i++ {
		v = v<<1 | zzBit(data, pos+int64(i))
	}
	return v
}

// zzLE reverses the ceil(n/8) low bytes of v.
func zzLE(v uint64, n int) uint64 {
	nb := (n + 7) / 8
	var r uint64
	for i := 0; i < nb; i++ {
		r = r<<8 | (v>>(8*uint(i)))&0xff
	}
	return r
}

// zzS interprets the n-bit value v as two's complement.
func zzS(v uint64, n int) int64 {
	if n == 64 {
		return int64(v)
	}
	top := (v >> uint(n-1)) & 1
	return int64(v | vrt.IteU64(top == 1, ^uint64(0)<<uint(n), 0))
}

// zzD builds a decoder over buf positioned at pos, with arbitrary garbage in
// the shared read buffer (the state that survives from one read to the next).
func zzD(buf []byte, endian Endian, pos int64) *D {
	garbage := vrt.Bytes("sharedbuf", 12)
	d := &D{Endian: endian, bitBuf: bitio.NewBitReader(buf, -1), readBuf: &garbage}
	d.SeekAbs(pos)
	return d
}

func zzTry(f func()) (err error) {
	defer func() {
		if r := recover(); r != nil {
			if e, ok := r.(error); ok {
				err = e
				return
			}
			panic(r)
		}
	}()
	f()
	return nil
}

// ---------------------------------------------------------------------------
// integer kernels with symbolic width

func VerifUSKernel() {
	const N = 10
	buf := vrt.Bytes("buf", N)
	pos := int64(vrt.IntRange("pos", 0, 23))
	n := vrt.IntRange("nBits", 1, 64)
	endian := Endian(vrt.Choice("endian", 2))
	signed := vrt.Choice("signed", 2) == 1
	d := zzD(buf, endian, pos)
	avail := int64(8*N) - pos
	want := zzU(buf, pos, minInt(n, int(avail)))
	if endian == LittleEndian {
		if n%8 != 0 {
			return // little endian is defined for whole-byte widths only
		}
		want = zzLE(want, n)
	}
	if signed {
		v, err := d.trySEndian(n, endian)
		if int64(n) > avail {
			vrt.Assert(err != nil, "trySEndian: error when not enough bits")
			return
		}
		vrt.Assert(err == nil, "trySEndian: succeeds when the bits exist")
		vrt.Assert(v == zzS(want, n), "trySEndian: two's complement value")
	} else {
		v, err := d.tryUEndian(n, endian)
		if int64(n) > avail {
			vrt.Assert(err != nil, "tryUEndian: error when not enough bits")
			return
		}
		vrt.Assert(err == nil, "tryUEndian: succeeds when the bits exist")
		vrt.Assert(v == want, "tryUEndian: unsigned value")
	}
	vrt.Assert(d.Pos() == pos+int64(n), "integer reader advances by its width")
}

// VerifUSWidthDomain: widths outside the domain of the integer readers (below
// 0 resp. 1, above 64) are refused with an error - never a Go runtime panic
// (which would crash fq: C06) - and a zero width unsigned read is 0.
func VerifUSWidthDomain() {
	buf := vrt.Bytes("buf", 10)
	n := vrt.IntRange("nBits", -2, 67)
	endian := Endian(vrt.Choice("endian", 2))
	signed := vrt.Choice("signed", 2) == 1
	d := zzD(buf, endian, 3)
	if n >= 1 && n <= 64 {
		return // VerifUSKernel
	}
	if signed {
		_, err := d.trySEndian(n, endian)
		vrt.Assert(err != nil, "trySEndian: a width outside 1..64 is an error")
	} else {
		v, err := d.tryUEndian(n, endian)
		if n == 0 {
			vrt.Assert(err == nil && v == 0, "tryUEndian: zero width reads 0")
		} else {
			vrt.Assert(err != nil, "tryUEndian: a width outside 0..64 is an error")
		}
	}
	vrt.Assert(d.Pos() == 3, "integer reader with an invalid width does not move")
}

func minInt(a, b int) int {
	if a < b {
		return a
	}
	return b
}

// VerifUSTail: reads that do not fit fail (buffer tail).
func VerifUSTail() {
	const N = 3
	buf := vrt.Bytes("buf", N)
	pos := int64(vrt.IntRange("pos", 0, 8*N))
	n := vrt.IntRange("nBits", 1, 32)
	d := zzD(buf, BigEndian, pos)
	v, err := d.tryUEndian(n, BigEndian)
	if int64(n) > int64(8*N)-pos {
		vrt.Assert(err != nil, "tryUEndian: error iff not enough bits")
	} else {
		vrt.Assert(err == nil && v == zzU(buf, pos, n), "tryUEndian at the tail")
	}
}

// VerifReverseBytes64 against a byte-loop reference for every width.
func VerifReverseBytes64() {
	v := vrt.Uint64("v")
	n := vrt.IntRange("nBits", 1, 64)
	if n < 64 {
		vrt.Assume(v>>uint(n) == 0)
	}
	if n%8 == 0 {
		vrt.Assert(bitio.ReverseBytes64(n, v) == zzLE(v, n), "ReverseBytes64 reverses the low n/8 bytes")
	} else {
		// not whole bytes: at least an involution on the ceil(n/8) bytes
		vrt.Assert(bitio.ReverseBytes64(n, bitio.ReverseBytes64(n, v)) == v, "ReverseBytes64 is an involution")
	}
}

// ---------------------------------------------------------------------------
// big integers

func verifBigInt(widths []int) {
	const N = 18
	buf := vrt.Bytes("buf", N)
	pos := int64(vrt.IntRange("pos", 0, 7))
	n := widths[vrt.Choice("width", len(widths))]
	endian := Endian(vrt.Choice("endian", 2))
	signed := vrt.Choice("signed", 2) == 1
	if endian == LittleEndian && n%8 != 0 {
		return
	}
	d := zzD(buf, endian, pos)
	v, err := d.tryBigIntEndianSign(n, endian, signed)
	vrt.Assert(err == nil, "tryBigIntEndianSign succeeds when the bits exist")
	// reference bit i (0 = least significant) of the magnitude pattern
	patBit := func(i int) uint64 {
		if endian == BigEndian {
			return zzBit(buf, pos+int64(n-1-i))
		}
		// little endian, whole bytes: byte j (from the start) holds bits 8j..8j+7
		j, b := i/8, i%8
		return zzBit(buf, pos+int64(8*j+7-b))
	}
	neg := signed && n > 0 && patBit(n-1) == 1
	// two's complement: v = pattern - 2^n if negative. Compare v mod 2^n with the pattern.
	m := new(big.Int).Set(v)
	if neg {
		vrt.Assert(v.Sign() < 0, "big integer: sign bit set means negative")
		m.Add(m, new(big.Int).Lsh(big.NewInt(1), uint(n)))
	} else {
		vrt.Assert(v.Sign() >= 0, "big integer: non-negative without sign bit")
	}
	var diff uint64
	for i := 0; i < n; i++ {
		diff |= uint64(m.Bit(i)) ^ patBit(i)
	}
	vrt.Assert(diff == 0, "big integer: every bit equals the input bit")
	vrt.Assert(m.BitLen() <= n, "big integer: no bits beyond the width")
	vrt.Assert(d.Pos() == pos+int64(n), "big integer reader advances by its width")
}

func VerifBigInt()     { verifBigInt([]int{1, 7, 8, 9, 63, 64, 65, 72, 127, 128, 129}) }
func VerifBigIntWide() {
	var w []int
	for i := 1; i <= 136; i++ {
		w = append(w, i)
	}
	verifBigInt(w)
}

// ---------------------------------------------------------------------------
// floats

func VerifFloat16() {
	h := vrt.Uint16("h")
	buf := []byte{byte(h >> 8), byte(h)}
	endian := Endian(vrt.Choice("endian", 2))
	if endian == LittleEndian {
		buf[0], buf[1] = buf[1], buf[0]
	}
	d := zzD(buf, endian, 0)
	f, err := d.tryFEndian(16, endian)
	vrt.Assert(err == nil, "tryFEndian(16) succeeds")
	want := float64(vrt.F16ToF32Ref(h))
	isNaN := h&0x7c00 == 0x7c00 && h&0x3ff != 0
	vrt.Cover("f16 subnormal", h&0x7c00 == 0 && h&0x3ff != 0)
	vrt.Cover("f16 nan", isNaN)
	if isNaN {
		vrt.Assert(f != f, "float16 NaN reads as NaN")
	} else {
		vrt.Assert(math.Float64bits(f) == math.Float64bits(want), "float16 value is exact")
	}
}

func VerifFloat3264() {
	buf := vrt.Bytes("buf", 9)
	pos := int64(vrt.IntRange("pos", 0, 7))
	endian := Endian(vrt.Choice("endian", 2))
	d := zzD(buf, endian, pos)
	if vrt.Choice("size", 2) == 0 {
		f, err := d.tryFEndian(32, endian)
		vrt.Assert(err == nil, "tryFEndian(32) succeeds")
		w := zzU(buf, pos, 32)
		if endian == LittleEndian {
			w = zzLE(w, 32)
		}
		want := float64(math.Float32frombits(uint32(w)))
		vrt.Assert(f != f && want != want || math.Float64bits(f) == math.Float64bits(want), "float32 is the bit cast widened")
	} else {
		f, err := d.tryFEndian(64, endian)
		vrt.Assert(err == nil, "tryFEndian(64) succeeds")
		w := zzU(buf, pos, 64)
		if endian == LittleEndian {
			w = zzLE(w, 64)
		}
		vrt.Assert(math.Float64bits(f) == w, "float64 is the bit cast")
	}
}

// VerifFloat80: exact where representable; overflow gives infinity, underflow
// zero; NaN stays NaN; otherwise within the two neighbouring doubles.
func VerifFloat80() {
	se := vrt.Uint16("se")
	m := vrt.Uint64("m")
	buf := []byte{byte(se >> 8), byte(se), byte(m >> 56), byte(m >> 48), byte(m >> 40), byte(m >> 32), byte(m >> 24), byte(m >> 16), byte(m >> 8), byte(m)}
	d := zzD(buf, BigEndian, 0)
	f, err := d.tryFEndian(80, BigEndian)
	vrt.Assert(err == nil, "tryFEndian(80) succeeds")
	got := math.Float64bits(f)
	sign := uint64(se>>15) << 63
	exp := int64(se & 0x7fff)
	e := exp - 16383 // unbiased
	switch {
	case exp == 0x7fff:
		if m<<1 == 0 {
			vrt.Assert(got == sign|0x7ff0000000000000, "float80 infinity")
		} else {
			vrt.Assert(f != f, "float80 NaN reads as NaN")
		}
	case m>>63 == 0:
		// zero, denormals (tiny) and unnormals (invalid encodings, outside the claim)
		if exp == 0 {
			vrt.Assert(got == sign, "float80 zero and denormals (far below the binary64 range) read as zero")
		}
	case e > 1023:
		vrt.Assert(got == sign|0x7ff0000000000000, "float80 beyond the binary64 range is infinity")
	case e < -1140:
		vrt.Assert(got == sign, "float80 below the binary64 range is zero")
	case e >= -1022:
		// normal result: truncated and rounded neighbours
		trunc := sign | uint64(e+1023)<<52 | (m&0x7fffffffffffffff)>>11
		if m&0x7ff == 0 {
			vrt.Assert(got == trunc, "float80 exactly representable value is exact")
		} else {
			vrt.Assert(got == trunc || got == trunc+1, "float80 value is one of the two neighbouring doubles")
		}
	}
}

// ---------------------------------------------------------------------------
// fixed point, LEB128, unary, bool

func VerifFixedPoint() {
	buf := vrt.Bytes("buf", 9)
	pos := int64(vrt.IntRange("pos", 0, 7))
	endian := Endian(vrt.Choice("endian", 2))
	type fp struct{ n, f int }
	k := []fp{{16, 8}, {32, 16}, {64, 32}, {16, 14}, {32, 30}}[vrt.Choice("kind", 5)]
	d := zzD(buf, endian, pos)
	v, err := d.tryFPEndian(k.n, k.f, endian)
	vrt.Assert(err == nil, "tryFPEndian succeeds")
	w := zzU(buf, pos, k.n)
	if endian == LittleEndian {
		w = zzLE(w, k.n)
	}
	want := float64(w) / float64(uint64(1)<<uint(k.f))
	vrt.Assert(math.Float64bits(v) == math.Float64bits(want), "fixed point = integer / 2^fraction bits")
}

func VerifULEB128() {
	const N = 11
	buf := vrt.Bytes("buf", N)
	d := zzD(buf, BigEndian, 0)
	var v uint64
	err := zzTry(func() { var e error; v, e = d.tryULEB128(); if e != nil { panic(e) } })
	// reference: little-endian base 128, at most 10 groups for 64 bits
	var want uint64
	var overflow, truncated bool
	n := 0
	for {
		if n >= N {
			truncated = true
			break
		}
		b := uint64(buf[n])
		sh := uint(7 * n)
		if sh >= 64 || (sh == 63 && b&0x7e != 0) {
			if b&0x7f != 0 {
				overflow = true
			}
		} else {
			want |= (b & 0x7f) << sh
		}
		n++
		if b&0x80 == 0 {
			break
		}
		if n > 10 {
			overflow = true
			break
		}
	}
	vrt.Cover("uleb 10 bytes", n == 10 && !overflow && !truncated)
	if truncated {
		vrt.Assert(err != nil, "ULEB128: truncated input is an error")
		return
	}
	if overflow {
		vrt.Assert(err != nil, "ULEB128: a value that does not fit in 64 bits is an error, never a wrapped value")
		return
	}
	if n >= 10 && err != nil {
		return // tenth group used (values >= 2^63, over-long encodings): rejected by fq — an error, not a wrong value
	}
	vrt.Assert(err == nil, "ULEB128: succeeds on a value that fits")
	vrt.Assert(v == want, "ULEB128 value")
	vrt.Assert(d.Pos() == int64(8*n), "ULEB128 consumes exactly its bytes")
}

func VerifSLEB128() {
	const N = 11
	buf := vrt.Bytes("buf", N)
	d := zzD(buf, BigEndian, 0)
	var v int64
	err := zzTry(func() { var e error; v, e = d.trySLEB128(); if e != nil { panic(e) } })
	var acc uint64
	var truncated, overflow bool
	n := 0
	var last uint64
	for {
		if n >= N {
			truncated = true
			break
		}
		b := uint64(buf[n])
		last = b
		sh := uint(7 * n)
		if sh < 64 {
			acc |= (b & 0x7f) << sh
		}
		if sh == 63 {
			// tenth group: only the sign extension patterns fit
			if b&0x7f != 0 && b&0x7f != 0x7f {
				overflow = true
			}
		}
		n++
		if b&0x80 == 0 {
			break
		}
		if n >= 10 {
			overflow = true
			break
		}
	}
	if truncated {
		vrt.Assert(err != nil, "SLEB128: truncated input is an error")
		return
	}
	if overflow {
		return // representation beyond 64 bits: accepted or rejected, outside the claim
	}
	sh := uint(7 * n)
	want := int64(acc)
	if sh < 64 && last&0x40 != 0 {
		want = int64(acc | ^uint64(0)<<sh)
	}
	vrt.Assert(err == nil, "SLEB128: succeeds on a value that fits")
	vrt.Assert(v == want, "SLEB128 value")
	vrt.Assert(d.Pos() == int64(8*n), "SLEB128 consumes exactly its bytes")
}

func VerifUnaryBool() {
	const N = 3
	buf := vrt.Bytes("buf", N)
	pos := int64(vrt.IntRange("pos", 0, 9))
	ov := uint64(vrt.Choice("one", 2))
	d := zzD(buf, BigEndian, pos)
	if vrt.Choice("what", 2) == 0 {
		b, err := d.tryBool()
		vrt.Assert(err == nil && b == (zzBit(buf, pos) == 1), "bool is the bit")
		vrt.Assert(d.Pos() == pos+1, "bool consumes one bit")
		return
	}
	v, err := d.tryUnary(ov)
	// reference: count bits equal to ov until the first different bit
	var want uint64
	found := false
	for i := pos; i < 8*N; i++ {
		if zzBit(buf, i) != ov {
			found = true
			break
		}
		want++
	}
	if !found {
		vrt.Assert(err != nil, "unary: running off the end is an error")
		vrt.Assert(d.Pos() == pos, "unary: position restored on error")
		return
	}
	vrt.Assert(err == nil && v == want, "unary value = number of leading bits equal to the one-symbol")
	vrt.Assert(d.Pos() == pos+int64(want)+1, "unary consumes the run and the terminator")
}

// ---------------------------------------------------------------------------
// text readers: length and position arithmetic (decoder = identity on ASCII)

func VerifText() {
	const N = 6
	buf := vrt.Bytes("buf", N)
	pos := int64(vrt.IntRange("posBytes", 0, 2)) * 8
	d := zzD(buf, BigEndian, pos)
	left := N - int(pos/8)
	sameStr := func(s string, from int, n int) bool {
		if len(s) != n {
			return false
		}
		var diff byte
		for i := 0; i < n; i++ {
			diff |= s[i] ^ buf[from+i]
		}
		return diff == 0
	}
	switch vrt.Choice("reader", 4) {
	case 0: // fixed
		n := vrt.IntRange("n", 0, N+1)
		s, err := d.tryText(n, UTF8BOM)
		if n > left {
			vrt.Assert(err != nil, "text: error when not enough bytes")
			return
		}
		vrt.Assert(err == nil && sameStr(s, int(pos/8), n), "text: exactly the n bytes at the position")
		vrt.Assert(d.Pos() == pos+int64(8*n), "text: consumes n bytes")
	case 1: // null terminated
		s, err := d.tryTextNull(1, UTF8BOM)
		idx := -1
		for i := int(pos / 8); i < N; i++ {
			if buf[i] == 0 {
				idx = i
				break
			}
		}
		if idx < 0 {
			vrt.Assert(err != nil, "null terminated text: missing terminator is an error")
			vrt.Assert(d.Pos() == pos, "null terminated text: position restored on error")
			return
		}
		vrt.Assert(err == nil && sameStr(s, int(pos/8), idx-int(pos/8)), "null terminated text: bytes before the terminator")
		vrt.Assert(d.Pos() == int64(8*(idx+1)), "null terminated text: consumes the terminator")
	case 2: // fixed field, null padded
		n := vrt.IntRange("n", 0, N+1)
		s, err := d.tryTextNullLen(n, UTF8BOM)
		if n > left {
			vrt.Assert(err != nil, "null padded text: error when not enough bytes")
			return
		}
		want := n
		for i := 0; i < n; i++ {
			if buf[int(pos/8)+i] == 0 {
				want = i
				break
			}
		}
		vrt.Assert(err == nil && sameStr(s, int(pos/8), want), "null padded text: bytes before the first null")
		vrt.Assert(d.Pos() == pos+int64(8*n), "null padded text: consumes the whole field")
	case 3: // length prefixed
		if left >= 1 {
			vrt.Assume(buf[pos/8] <= 7) // bound: declared lengths 0..7
		}
		s, err := d.tryTextLenPrefixed(1, -1, UTF8BOM)
		if left < 1 {
			vrt.Assert(err != nil, "length prefixed text: error without prefix")
			return
		}
		l := int(vrt.SplitInt(int(buf[pos/8])))
		if 1+l > left {
			vrt.Assert(err != nil, "length prefixed text: error when the declared length does not fit")
			vrt.Assert(d.Pos() == pos, "length prefixed text: position restored on error")
			return
		}
		vrt.Assert(err == nil && sameStr(s, int(pos/8)+1, l), "length prefixed text: the l bytes after the prefix")
		vrt.Assert(d.Pos() == pos+int64(8*(1+l)), "length prefixed text: consumes prefix and text")
	}
}

// ---------------------------------------------------------------------------
// helpers for the generated per-method harness (gen_int.go, written on every
// run from go/types of the current tree)

// zzCheckInt checks one generated integer reader: width n and byte order are
// what its name promises. fixedEndian: -1 = current endian of d.
func zzCheckInt(d *D, buf []byte, pos int64, n int, fixedEndian int, signed bool, u func() (uint64, error), s func() (int64, error)) {
	endian := d.Endian
	if fixedEndian >= 0 {
		endian = Endian(fixedEndian)
	}
	if endian == LittleEndian && n%8 != 0 {
		return
	}
	avail := int64(8*len(buf)) - pos
	var uv uint64
	var sv int64
	var err error
	if signed {
		sv, err = s()
	} else {
		uv, err = u()
	}
	if int64(n) > avail {
		vrt.Assert(err != nil, "generated integer reader: error when not enough bits")
		return
	}
	vrt.Assert(err == nil, "generated integer reader: succeeds when the bits exist")
	want := zzU(buf, pos, n)
	if endian == LittleEndian {
		want = zzLE(want, n)
	}
	if signed {
		vrt.Assert(sv == zzS(want, n), "generated signed reader: value, width and byte order as named")
	} else {
		vrt.Assert(uv == want, "generated unsigned reader: value, width and byte order as named")
	}
	vrt.Assert(d.Pos() == pos+int64(n), "generated integer reader advances by its width")
}

func zzPanicU(f func() uint64) func() (uint64, error) {
	return func() (v uint64, err error) {
		err = zzTry(func() { v = f() })
		return
	}
}

func zzPanicS(f func() int64) func() (int64, error) {
	return func() (v int64, err error) {
		err = zzTry(func() { v = f() })
		return
	}
}

func zzPanicF(f func() float64) func() (float64, error) {
	return func() (v float64, err error) {
		err = zzTry(func() { v = f() })
		return
	}
}

// zzCheckFloat checks the wiring of a generated float reader against the kernel.
func zzCheckFloat(d *D, buf []byte, pos int64, n int, fixedEndian int, f func() (float64, error)) {
	endian := d.Endian
	if fixedEndian >= 0 {
		endian = Endian(fixedEndian)
	}
	got, err := f()
	d2 := &D{Endian: d.Endian, bitBuf: bitio.NewBitReader(buf, -1)}
	d2.SeekAbs(pos)
	want, err2 := d2.tryFEndian(n, endian)
	vrt.Assert((err == nil) == (err2 == nil), "generated float reader: fails iff the kernel fails")
	if err != nil {
		return
	}
	vrt.Assert(got != got && want != want || math.Float64bits(got) == math.Float64bits(want), "generated float reader: same value as the kernel for its width and byte order")
	vrt.Assert(d.Pos() == pos+int64(n), "generated float reader advances by its width")
}
