package decode

import (
	vrt "github.com/wader/fq/internal/zzvrt"
	"github.com/wader/fq/pkg/bitio"
	"github.com/wader/fq/pkg/scalar"
)

// zzSameTree asserts that two trees are identical in shape, names, ranges and scalar values.
func zzSameTree(a, b *Value) {
	vrt.Assert(a.Name == b.Name && a.IsRoot == b.IsRoot && a.Index == b.Index, "isolation: same field names, indices and roots")
	vrt.Assert(a.Range.Start == b.Range.Start && a.Range.Len == b.Range.Len, "isolation: same ranges")
	vrt.Assert((a.Err == nil) == (b.Err == nil), "isolation: same error state")
	ca, okA := a.V.(*Compound)
	cb, okB := b.V.(*Compound)
	vrt.Assert(okA == okB, "isolation: same value kinds")
	if okA && okB {
		vrt.Assert(len(ca.Children) == len(cb.Children) && ca.IsArray == cb.IsArray, "isolation: same number of children")
		if len(ca.Children) != len(cb.Children) {
			return
		}
		for i := range ca.Children {
			zzSameTree(ca.Children[i], cb.Children[i])
		}
		return
	}
	switch va := a.V.(type) {
	case *scalar.Uint:
		vb, ok := b.V.(*scalar.Uint)
		vrt.Assert(ok && va.Actual == vb.Actual && va.Sym == vb.Sym, "isolation: same unsigned value")
	case *scalar.Sint:
		vb, ok := b.V.(*scalar.Sint)
		vrt.Assert(ok && va.Actual == vb.Actual, "isolation: same signed value")
	case *scalar.Bool:
		vb, ok := b.V.(*scalar.Bool)
		vrt.Assert(ok && va.Actual == vb.Actual, "isolation: same boolean value")
	case *scalar.BitBuf:
		_, ok := b.V.(*scalar.BitBuf)
		vrt.Assert(ok, "isolation: same raw value kind")
	}
}

// zzVerifIsolation: two decodes of the same input that differ only in the
// arbitrary content of the shared read buffer (the state that survives from one
// decode to the next and is handed to nested decodes) give identical trees and
// the same error.
func zzVerifIsolation(i int) {
	const N = 6
	L := vrt.IntRange("bufBytes", 0, N)
	buf := vrt.Bytes("buf", N)[:L]
	prog := zzPrograms()[i]
	run := func(garbage []byte) (*Value, error) {
		var rec []zzRec
		g := &Group{Name: "prog", Formats: []*Format{{Name: prog.name, RootName: prog.name, DecodeFn: func(d *D) any {
			prog.fn(d, &rec)
			return nil
		}}}}
		root, _, err := Decode(nil, bitio.NewBitReader(buf, -1), g, Options{IsRoot: true, FillGaps: true, ReadBuf: &garbage})
		return root, err
	}
	zzMemo, zzMemoReplay, zzMemoCnt = map[string]int{}, false, map[string]int{}
	defer func() { zzMemo, zzMemoReplay = nil, false }()
	g1 := vrt.Bytes("garbage1", 8)
	r1, e1 := run(g1)
	zzMemoReplay, zzMemoCnt = true, map[string]int{} // same program parameters for the second decode
	// the second decode inherits whatever the first left in its read buffer, xor arbitrary garbage
	g2 := vrt.Bytes("garbage2", 8)
	r2, e2 := run(g2)
	vrt.Assert((e1 == nil) == (e2 == nil) && (r1 == nil) == (r2 == nil), "isolation: same outcome")
	if r1 != nil && r2 != nil {
		zzSameTree(r1, r2)
	}
}

func VerifIsolationFlat()      { zzVerifIsolation(0) }
func VerifIsolationNested()    { zzVerifIsolation(1) }
func VerifIsolationFramed()    { zzVerifIsolation(3) }
func VerifIsolationSubformat() { zzVerifIsolation(5) }

// VerifNoAlias: byte slices handed to callers do not alias the shared read
// buffer: a later read does not change them.
func VerifNoAlias() {
	buf := vrt.Bytes("buf", 8)
	garbage := vrt.Bytes("garbage", 8)
	d := &D{Endian: BigEndian, bitBuf: bitio.NewBitReader(buf, -1), readBuf: &garbage}
	d.SeekAbs(int64(vrt.IntRange("pos", 0, 7)))
	p0 := d.Pos()
	a := d.BytesLen(2)
	b := d.BytesRange(3, 2)
	d.U16() // uses the shared buffer
	d.Bits(11)
	var diff uint64
	for i := int64(0); i < 16; i++ {
		diff |= bitio.ZZRefBit(a, i) ^ bitio.ZZRefBit(buf, p0+i)
		diff |= bitio.ZZRefBit(b, i) ^ bitio.ZZRefBit(buf, 3+i)
	}
	vrt.Assert(diff == 0, "isolation: returned bytes are the caller's own copy of the input bits")
}

// VerifConcurrentDecode: two decode jobs of the same input run concurrently
// (each with its own read buffer, as fq does per decode): under every
// interleaving with one pre-emption at the loads/stores of pkg/decode there is
// no data race (shared package-level state), no deadlock, no panic, and both
// trees equal the tree of a lone run.
func VerifConcurrentDecode() {
	buf := vrt.Bytes("buf", 4)
	fn := func(d *D) any {
		d.FieldU8("a")
		d.FieldStruct("s", func(d *D) {
			d.FieldU16("b")
			d.FieldRawLen("r", 4)
		})
		d.FieldArray("arr", func(d *D) {
			d.FieldU2("x")
			d.FieldU2("x")
		})
		return nil
	}
	run := func() *Value {
		garbage := make([]byte, 8)
		g := &Group{Name: "prog", Formats: []*Format{{Name: "conc", RootName: "conc", DecodeFn: fn}}}
		root, _, _ := Decode(nil, bitio.NewBitReader(buf, -1), g, Options{IsRoot: true, FillGaps: true, ReadBuf: &garbage})
		return root
	}
	lone := run()
	vrt.Threads(1, "pkg/decode")
	res := make(chan *Value, 2)
	go func() { res <- run() }()
	go func() { res <- run() }()
	a := <-res
	b := <-res
	vrt.Assert(lone != nil && a != nil && b != nil, "isolation: concurrent decodes succeed like the lone run")
	zzSameTree(lone, a)
	zzSameTree(lone, b)
}
