package decode

import (
	"github.com/wader/fq/internal/bitiox"
	vrt "github.com/wader/fq/internal/zzvrt"
	"github.com/wader/fq/pkg/bitio"
	"github.com/wader/fq/pkg/ranges"
	"github.com/wader/fq/pkg/scalar"
)

// ---------------------------------------------------------------------------
// structural invariants of a decode tree (C03), gap cover (C04), navigation
// links (C12): asserted over the real *Value graph; ranges may be symbolic.

type zzTreeStats struct {
	values, compounds, roots, gaps int
}

func zzIsSynthetic(v *Value) bool {
	if s, ok := v.V.(scalar.Scalarable); ok && s.ScalarFlags().IsSynthetic() {
		return true
	}
	return false
}

func zzIsGap(v *Value) bool {
	if s, ok := v.V.(scalar.Scalarable); ok && s.ScalarFlags().IsGap() {
		return true
	}
	return false
}

func zzBufLen(v *Value) int64 {
	l, err := bitiox.Len(v.RootReader)
	vrt.Assert(err == nil, "tree: buffer length available")
	return l
}

// zzCheckValue checks v and its subtree. rootLen is the bit length of the
// buffer v was decoded from (the buffer of its buffer root).
func zzCheckValue(v *Value, parent *Value, rootLen int64, st *zzTreeStats) {
	st.values++
	vrt.Assert(v.Parent == parent, "tree: child's parent link is its parent")
	if v.IsRoot {
		st.roots++
		// a (nested) root owns its buffer: its inner range is [0, Len) of that buffer
		ownLen := zzBufLen(v)
		vrt.Assert(v.Range.Len >= 0 && v.Range.Len <= ownLen, "tree: root range lies inside its own buffer")
		if parent != nil {
			vrt.Assert(v.Range.Start >= 0 && v.Range.Start <= rootLen, "tree: nested root is placed inside the parent buffer")
		}
		rootLen = ownLen
	} else {
		vrt.Assert(v.Range.Start >= 0, "tree: range start is non-negative")
		vrt.Assert(v.Range.Len >= 0, "tree: range length is non-negative")
		vrt.Assert(v.Range.Start+v.Range.Len <= rootLen, "tree: range lies inside the buffer it was decoded from")
	}
	c, ok := v.V.(*Compound)
	if !ok {
		if zzIsGap(v) {
			st.gaps++
		}
		return
	}
	st.compounds++
	vrt.Assert(v.Index == -1 || parent != nil, "tree: index of a root compound is -1")
	// span of the same-buffer, non-synthetic children
	first := true
	var span ranges.Range
	for _, f := range c.Children {
		if f.IsRoot || zzIsSynthetic(f) {
			continue
		}
		if first {
			span, first = f.Range, false
		} else {
			lo := vrt.IteI64(f.Range.Start < span.Start, f.Range.Start, span.Start)
			hi := vrt.IteI64(f.Range.Start+f.Range.Len > span.Start+span.Len, f.Range.Start+f.Range.Len, span.Start+span.Len)
			span = ranges.Range{Start: lo, Len: hi - lo}
		}
	}
	if !first && !v.IsRoot {
		vrt.Assert(v.Range.Start == span.Start && v.Range.Len == span.Len, "tree: compound range spans its same-buffer children")
	}
	if !first && v.IsRoot {
		vrt.Assert(v.Range.Len == span.Start+span.Len-span.Start, "tree: root compound length spans its children")
	}
	if c.IsArray {
		for i, f := range c.Children {
			vrt.Assert(f.Index == i, "tree: array elements are numbered consecutively from zero")
		}
	} else {
		seen := map[string]bool{}
		for i, f := range c.Children {
			vrt.Assert(!seen[f.Name], "tree: struct field names are unique")
			seen[f.Name] = true
			vrt.Assert(c.ByName[f.Name] == f, "tree: name lookup returns the child")
			vrt.Assert(f.Index == -1, "tree: struct fields have index -1")
			if i > 0 {
				vrt.Assert(c.Children[i-1].Range.Start <= f.Range.Start, "tree: struct fields are ordered by start position")
			}
		}
		vrt.Assert(len(c.ByName) == len(c.Children) || (len(c.Children) == 0 && c.ByName == nil), "tree: name map and children are in bijection")
	}
	for _, f := range c.Children {
		zzCheckValue(f, v, rootLen, st)
	}
}

// zzLeaves collects the leaf ranges of one buffer root (nested roots are
// leaves of their parent buffer with their placed range excluded: they are
// not part of the parent's bits).
func zzLeaves(v *Value, top *Value, out *[]ranges.Range, gaps *[]*Value) {
	if v != top && v.IsRoot {
		return
	}
	if c, ok := v.V.(*Compound); ok {
		for _, f := range c.Children {
			zzLeaves(f, top, out, gaps)
		}
		return
	}
	if zzIsGap(v) {
		*gaps = append(*gaps, v)
		return
	}
	*out = append(*out, v.Range)
}

// zzCheckCover: with gap filling, every bit of the decoded range is in a leaf
// field or in exactly one gap field, never both; gap content = input bits.
func zzCheckCover(root *Value, buf []byte, total int64, content bool) {
	var leaves []ranges.Range
	var gaps []*Value
	zzLeaves(root, root, &leaves, &gaps)
	p := vrt.Int64("coverPos")
	vrt.Assume(0 <= p)
	vrt.Assume(p < total)
	var covered, inGaps, k1a, k1b uint64
	for _, r := range leaves {
		covered |= vrt.IteU64(r.Len > 0, 1, 0) & vrt.IteU64(r.Start <= p, 1, 0) & vrt.IteU64(p < r.Start+r.Len, 1, 0)
		var empties int64
		for _, e := range leaves {
			empties += int64(vrt.IteU64(e.Len == 0, 1, 0) & vrt.IteU64(e.Start >= r.Start+r.Len+1, 1, 0) & vrt.IteU64(e.Start <= p, 1, 0))
		}
		k1a |= vrt.IteU64(r.Len > 0, 1, 0) & vrt.IteU64(r.Start+r.Len <= p, 1, 0) & vrt.IteU64(p-(r.Start+r.Len) <= empties, 1, 0)
		k1b |= vrt.IteU64(r.Start == p+1, 1, 0)
	}
	for _, g := range gaps {
		inGaps += vrt.IteU64(g.Range.Start <= p, 1, 0) & vrt.IteU64(p < g.Range.Start+g.Range.Len, 1, 0)
	}
	ok := (covered == 1 && inGaps == 0) || (covered == 0 && inGaps == 1)
	vrt.AssertKnown(ok, "cover: every bit is in a leaf field or in exactly one gap field, never both", "K1", covered == 0 && k1a&k1b == 1)
	// gap content is exactly the input bits of its range
	for _, g := range gaps {
		if !content {
			break
		}
		bb, isBB := g.V.(*scalar.BitBuf)
		vrt.Assert(isBB, "cover: gap fields are raw bit values")
		if !isBB {
			continue
		}
		l, err := bitiox.Len(bb.Actual)
		vrt.Assert(err == nil && l == g.Range.Len, "cover: gap reader length equals the gap range")
		n := vrt.Split(g.Range.Len)
		start := vrt.Split(g.Range.Start)
		tmp := make([]byte, bitio.BitsByteCount(n))
		k, err := bitio.ReadAtFull(bb.Actual, tmp, n, 0)
		vrt.Assert(err == nil && k == n, "cover: gap reader yields all its bits")
		var diff uint64
		for i := int64(0); i < n; i++ {
			diff |= bitio.ZZRefBit(tmp, i) ^ bitio.ZZRefBit(buf, start+i)
		}
		vrt.Assert(diff == 0, "cover: gap content is the input bits of its range")
	}
}

// ---------------------------------------------------------------------------
// decoder programs with symbolic parameters

type zzRec struct {
	name       string
	start, len int64
}

type zzProg struct {
	name      string
	fn        func(d *D, rec *[]zzRec)
	rootArray bool
}

var zzWidths = []int{1, 8, 13, 17} // inside a byte, ends on a boundary, crosses one, crosses two

func zzW(name string) int { return zzWidths[zzC(name, len(zzWidths))] }

// parameter choices of a program run; with zzMemoReplay the recorded values are
// returned again (a second run of the same program with the same parameters)
var zzMemo map[string]int
var zzMemoReplay bool
var zzMemoCnt = map[string]int{}

// zzKey numbers repeated uses of a name within one run.
func zzKey(name string) string {
	k := zzMemoCnt[name]
	zzMemoCnt[name] = k + 1
	if k == 0 {
		return name
	}
	return name + "#" + string(rune('0'+k))
}

func zzC(name0 string, n int) int {
	name := name0
	if zzMemo != nil {
		name = zzKey(name0)
	}
	if zzMemoReplay {
		if v, ok := zzMemo[name]; ok {
			return v
		}
	}
	v := vrt.Choice(name0, n)
	if zzMemo != nil {
		zzMemo[name] = v
	}
	return v
}

func zzR(name0 string, lo, hi int) int {
	name := name0
	if zzMemo != nil {
		name = zzKey(name0)
	}
	if zzMemoReplay {
		if v, ok := zzMemo[name]; ok {
			return v
		}
	}
	v := vrt.IntRange(name0, lo, hi)
	if zzMemo != nil {
		zzMemo[name] = v
	}
	return v
}

func zzFU(d *D, rec *[]zzRec, name string, w int) uint64 {
	p := d.Pos()
	v := d.FieldU(name, w)
	*rec = append(*rec, zzRec{name, p, int64(w)})
	return v
}

func zzSubFormat(w int) *Group {
	return &Group{Name: "sub", Formats: []*Format{{Name: "sub", RootName: "sub", DecodeFn: func(d *D) any {
		d.FieldU8("tag")
		d.FieldU("val", w)
		return nil
	}}}}
}

func zzPrograms() []zzProg {
	return []zzProg{
		{name: "flat", fn: func(d *D, rec *[]zzRec) {
			zzFU(d, rec, "a", zzW("w1"))
			d.FieldS("b", zzW("w2"))
			d.FieldRawLen("c", int64([]int{0, 5, 9}[zzC("rawLen", 3)]))
			d.FieldBool("d")
		}},
		{name: "nested", fn: func(d *D, rec *[]zzRec) {
			d.FieldStruct("hdr", func(d *D) {
				zzFU(d, rec, "x", zzW("w1"))
				d.FieldU8("y")
			})
			n := zzR("count", 0, 3)
			d.FieldArray("items", func(d *D) {
				for i := 0; i < n; i++ {
					d.FieldStruct("item", func(d *D) {
						zzFU(d, rec, "v", zzW("w2"))
					})
				}
			})
			d.FieldStructNArray("pairs", "pair", int64(zzR("pairs", 0, 2)), func(d *D) {
				d.FieldU8("k")
			})
		}},
		{name: "seek", fn: func(d *D, rec *[]zzRec) {
			d.FieldU8("a")
			d.SeekRel(int64([]int{-8, -3, 0, 5, 16, 100}[zzC("delta", 6)]))
			zzFU(d, rec, "b", zzW("w1"))
			d.SeekAbs(int64([]int{0, 3, 24, 40}[zzC("abs", 4)]))
			d.FieldU8("c")
			d.SeekAbs(int64([]int{1, 17}[zzC("peekAt", 2)]), func(d *D) { d.FieldU("peek", 3) })
			d.FieldU("e", 2)
		}},
		{name: "framed", fn: func(d *D, rec *[]zzRec) {
			d.FieldU8("a")
			fl := int64([]int{0, 8, 11, 24}[zzC("frameLen", 4)])
			d.FramedFn(fl, func(d *D) {
				d.FieldU8("f1")
				zzFU(d, rec, "f2", zzW("w1"))
			})
			d.FieldU8("after")
			d.LimitedFn(int64([]int{0, 4, 16}[zzC("limit", 3)]), func(d *D) {
				d.FieldU("l1", 4)
			})
			d.RangeFn(int64([]int{0, 5, 30}[zzC("rangeAt", 3)]), 9, func(d *D) {
				d.FieldStruct("r", func(d *D) { d.FieldU("r1", 9) })
			})
		}},
		{name: "ranges", fn: func(d *D, rec *[]zzRec) {
			d.FieldU8("a")
			first := int64([]int{0, 3, 12, 30}[zzC("first", 4)])
			n := int64([]int{0, 1, 8, 13}[zzC("n", 4)])
			if first+n <= d.Len() { // FieldRangeFn precondition: the caller picks a range inside the buffer
				d.FieldRangeFn("picked", first, n, func() *Value { return &Value{V: &scalar.Uint{Actual: 1}} })
			}
			d.FieldValueUint("synthetic", 7)
			d.FieldStruct("s", func(d *D) {
				d.FieldValueUint("onlySynthetic", 1)
			})
			d.FieldU8("b")
		}},
		{name: "subformat", fn: func(d *D, rec *[]zzRec) {
			d.FieldU("a", 3)
			w := zzW("w1")
			switch zzC("how", 4) {
			case 0:
				d.FieldFormat("f", zzSubFormat(w), nil)
			case 1:
				d.FieldFormatLen("f", int64([]int{8, 12, 40}[zzC("len", 3)]), zzSubFormat(w), nil)
			case 2:
				d.FieldFormatRange("f", int64([]int{0, 5}[zzC("at", 2)]), int64([]int{8, 30}[zzC("len", 2)]), zzSubFormat(w), nil)
			case 3:
				d.FieldFormatOrRawLen("f", int64([]int{4, 16}[zzC("len", 2)]), zzSubFormat(w), nil)
			}
			d.FieldU("z", 2)
		}},
		{name: "nestedroot", fn: func(d *D, rec *[]zzRec) {
			d.FieldU("a", 5)
			inner := vrt.Bytes("inner", 3)
			if zzConcreteData {
				inner = []byte{0x5a, 0xc3, 0x0f}
			}
			ibits := int64(zzR("innerBits", 0, 24))
			br := bitio.NewBitReader(inner, ibits)
			zzInnerBuf, zzInnerBits = inner, ibits
			switch zzC("how", 4) {
			case 3:
				d.FieldArrayRootBitBufFn("unpackedArray", br, func(d *D) {
					d.FieldU("e", zzW("w1"))
					d.FieldU("e", 3)
					d.FieldU("e", 9)
				})
			case 0:
				d.FieldRootBitBuf("blob", br)
			case 1:
				d.FieldStructRootBitBufFn("unpacked", br, func(d *D) {
					d.FieldU("i1", zzW("w1"))
					d.FieldU("i2", 3)
				})
			case 2:
				d.FieldFormatBitBuf("sub", br, zzSubFormat(zzW("w1")), nil)
			}
			d.FieldU8("b")
		}},
		{name: "loop", fn: func(d *D, rec *[]zzRec) {
			w := zzW("w1")
			d.FieldArrayLoop("elems", d.NotEnd, func(d *D) {
				d.FieldU("e", w)
			})
		}},
		{name: "symlayout", fn: func(d *D, rec *[]zzRec) {
			// fields placed at fully symbolic ranges (as decoders do that follow offsets
			// found in the input): ordering, spans and gaps are decided by the solver
			total := d.Len()
			place := func(d *D, name string) {
				first, n := vrt.Int64("first"), vrt.Int64("n")
				vrt.Assume(0 <= first)
				vrt.Assume(0 <= n)
				vrt.Assume(first <= total)
				vrt.Assume(n <= total)
				vrt.Assume(first+n <= total)
				d.FieldRangeFn(name, first, n, func() *Value { return &Value{V: &scalar.Uint{Actual: 1}} })
			}
			place(d, "p")
			d.FieldStruct("s", func(d *D) {
				place(d, "q")
				if zzC("third", 2) == 1 {
					place(d, "r")
				}
			})
		}},
		{name: "rootarray", rootArray: true, fn: func(d *D, rec *[]zzRec) {
			// a format whose root is an array: gap fields are appended to the array
			n := zzR("count", 0, 2)
			for i := 0; i < n; i++ {
				d.FieldStruct("elem", func(d *D) { d.FieldU8("v") })
			}
			if zzC("skip", 2) == 1 {
				d.SeekRel(5)
				d.FieldU("late", 3)
			}
		}},
		{name: "errors", fn: func(d *D, rec *[]zzRec) {
			d.FieldU8("a")
			switch zzC("failure", 4) {
			case 0:
				d.FieldStruct("s", func(d *D) {
					d.FieldU8("x")
					d.Fatalf("giving up")
				})
			case 1:
				d.FieldU8("a") // duplicate name
			case 2:
				d.FieldStruct("s", func(d *D) {
					d.FieldU8("x")
					d.Errorf("soft error")
					d.FieldU8("y")
				})
			case 3:
				d.FieldArray("arr", func(d *D) {
					d.FieldU8("e")
					d.FieldU("e", 70) // invalid width
				})
			}
			d.FieldU8("z")
		}},
	}
}

// zzRunProgram decodes with program i over a symbolic buffer of symbolic length
// and returns what Decode returned.
func zzRunProgram(i int, forCover bool) (buf []byte, root *Value, err error, rec []zzRec, fillGaps bool, ok bool) {
	const N = 6
	L := vrt.IntRange("bufBytes", 0, N)
	if zzConcreteData {
		buf = []byte{0xa5, 0x3c, 0x00, 0xff, 0x81, 0x7e}[:L]
	} else {
		buf = vrt.Bytes("buf", N)[:L]
	}
	prog := zzPrograms()[i]
	force := false
	fillGaps = true
	if prog.name == "errors" {
		force = vrt.Choice("force", 2) == 1
	}
	if prog.name == "symlayout" {
		vrt.Assume(L == 5)
		fillGaps = forCover // the gap merge forks on every ordering: only where it is the subject
	}
	if prog.name == "flat" {
		fillGaps = vrt.Choice("fillGaps", 2) == 1
	}
	garbage := vrt.Bytes("sharedbuf", 8)
	g := &Group{Name: "prog", Formats: []*Format{{Name: prog.name, RootName: prog.name, RootArray: prog.rootArray, DecodeFn: func(d *D) any {
		prog.fn(d, &rec)
		return nil
	}}}}
	root, _, err = Decode(nil, bitio.NewBitReader(buf, -1), g, Options{IsRoot: true, FillGaps: fillGaps, Force: force, ReadBuf: &garbage})
	if root == nil {
		vrt.Assert(err != nil, "decode: no tree means an error is reported")
		return buf, nil, err, rec, fillGaps, false
	}
	return buf, root, err, rec, fillGaps, true
}

// zzVerifCover: C04 on the trees of program i (gap filling on).
func zzVerifCover(i int) {
	buf, root, _, _, fillGaps, ok := zzRunProgram(i, true)
	if !ok {
		return
	}
	total := int64(len(buf)) * 8
	if fillGaps && total > 0 {
		zzCheckCover(root, buf, total, zzPrograms()[i].name != "symlayout")
	}
	// nested buffers decoded as a format are gap filled on their own
	if fillGaps && zzInnerBits > 0 {
		_ = root.WalkPreOrder(func(v *Value, _ *Value, _ int, _ int) error {
			if v != root && v.IsRoot && v.Format != nil {
				if _, ok := v.V.(*Compound); ok {
					zzCheckCover(v, zzInnerBuf, zzInnerBits, true)
				}
			}
			return nil
		})
	}
}

func zzVerifTree(i int) {
	buf, root, err, rec, _, ok := zzRunProgram(i, false)
	if !ok {
		return
	}
	_ = err
	vrt.Cover("partial tree (decode error with tree)", err != nil)
	vrt.Cover("complete tree", err == nil)
	st := &zzTreeStats{}
	total := int64(len(buf)) * 8
	vrt.Assert(root.IsRoot && root.Parent == nil, "tree: top value is a parentless root")
	zzCheckValue(root, nil, total, st)
	// recorded reads: a leaf with that name exists with exactly the consumed range
	for _, r := range rec {
		found := false
		_ = root.WalkPreOrder(func(v *Value, _ *Value, _ int, _ int) error {
			if v.Name == r.name && v.Range.Start == r.start && v.Range.Len == r.len {
				found = true
			}
			return nil
		})
		vrt.Assert(found, "tree: a field's range is exactly the bits its reader consumed")
	}
}

func VerifCoverFlat()       { zzVerifCover(0) }
func VerifCoverNested()     { zzVerifCover(1) }
func VerifCoverSeek()       { zzVerifCover(2) }
func VerifCoverFramed()     { zzVerifCover(3) }
func VerifCoverRanges()     { zzVerifCover(4) }
func VerifCoverSubformat()  { zzVerifCover(5) }
func VerifCoverNestedRoot() { zzVerifCover(6) }
func VerifCoverLoop()       { zzVerifCover(7) }
func VerifCoverSymLayout()  { zzVerifCover(8) }
func VerifCoverRootArray()  { zzVerifCover(9) }
func VerifCoverErrors()     { zzVerifCover(10) }

func VerifTreeFlat()       { zzVerifTree(0) }
func VerifTreeNested()     { zzVerifTree(1) }
func VerifTreeSeek()       { zzVerifTree(2) }
func VerifTreeFramed()     { zzVerifTree(3) }
func VerifTreeRanges()     { zzVerifTree(4) }
func VerifTreeSubformat()  { zzVerifTree(5) }
func VerifTreeNestedRoot() { zzVerifTree(6) }
func VerifTreeLoop()       { zzVerifTree(7) }
func VerifTreeSymLayout()  { zzVerifTree(8) }
func VerifTreeRootArray()  { zzVerifTree(9) }
func VerifTreeErrors()     { zzVerifTree(10) }

// ---- exported for the pkg/interp harnesses (overlay only) ----

// ZZTree is a decoded tree of program i together with the bytes of its buffers.
type ZZTree struct {
	Buf   []byte // top level buffer
	Inner []byte // buffer of nested roots (program "nestedroot"), nil otherwise
	InnerBits int64
	Root  *Value
	Err   error
}

var zzConcreteData bool
var zzInnerBuf []byte
var zzInnerBits int64

func ZZNumPrograms() int { return len(zzPrograms()) }

func ZZProgramName(i int) string { return zzPrograms()[i].name }

// ZZRunProgram decodes program i (gap filling on) and returns the tree.
func ZZRunProgram(i int) (ZZTree, bool) { return ZZRunProgramData(i, false) }

// ZZRunProgramShape: fixed bytes and no gap filling (only the shape matters).
func ZZRunProgramShape(i int) (ZZTree, bool) {
	zzConcreteData = true
	defer func() { zzConcreteData = false }()
	zzInnerBuf, zzInnerBits = nil, 0
	buf, root, err, _, _, ok := zzRunProgram(i, false)
	return ZZTree{Buf: buf, Inner: zzInnerBuf, InnerBits: zzInnerBits, Root: root, Err: err}, ok
}

// ZZRunProgramData: with concrete=true the buffers hold fixed bytes (for checks
// whose subject is the tree shape, not the data).
func ZZRunProgramData(i int, concrete bool) (ZZTree, bool) {
	zzConcreteData = concrete
	defer func() { zzConcreteData = false }()
	zzInnerBuf, zzInnerBits = nil, 0
	buf, root, err, _, _, ok := zzRunProgram(i, true)
	return ZZTree{Buf: buf, Inner: zzInnerBuf, InnerBits: zzInnerBits, Root: root, Err: err}, ok
}
