package ranges

import (
	vrt "github.com/wader/fq/internal/zzvrt"
)

func b2u(c bool) uint64 { return vrt.IteU64(c, 1, 0) }

// verifGaps: for every bit position p of the total range: p lies in a
// non-empty input range XOR in exactly one returned gap; gaps are non-empty,
// inside the total range, sorted and disjoint.
// Known finding K1 (pinned by ranges_test.go "1:1 2:5 8:1" -> "0:1 9:1"): the merge
// condition m.Stop()+1 >= next.Start joins runs separated by one bit, so that
// bit is in no range and no gap; empty ranges act as stepping stones, each one
// widens the swallowed hole by one more bit.
func verifGaps(n int, maxTotal int64) {
	T := vrt.Int64("total")
	vrt.Assume(0 <= T)
	vrt.Assume(T <= maxTotal)
	rs := make([]Range, n)
	for i := range rs {
		s, l := vrt.Int64("start"), vrt.Int64("len")
		vrt.Assume(0 <= s)
		vrt.Assume(0 <= l)
		vrt.Assume(s <= T)
		vrt.Assume(l <= T)
		vrt.Assume(s+l <= T)
		rs[i] = Range{Start: s, Len: l}
	}
	in := append([]Range(nil), rs...)
	gaps := Gaps(Range{Start: 0, Len: T}, in)

	p := vrt.Int64("p")
	vrt.Assume(0 <= p)
	vrt.Assume(p < T)
	var covered, inGaps, k1a, k1b uint64
	for _, r := range rs {
		covered |= b2u(r.Len > 0) & b2u(r.Start <= p) & b2u(p < r.Start+r.Len)
		// K1: a run ends at most (number of empty ranges in between) bits before p ...
		var empties int64
		for _, e := range rs {
			empties += int64(b2u(e.Len == 0) & b2u(e.Start >= r.Start+r.Len+1) & b2u(e.Start <= p))
		}
		k1a |= b2u(r.Len > 0) & b2u(r.Start+r.Len <= p) & b2u(p-(r.Start+r.Len) <= empties)
		// ... and some range (possibly empty) starts right behind p, so the merge steps over p
		k1b |= b2u(r.Start == p+1)
	}
	var bad uint64
	prevStop := int64(0)
	for i, g := range gaps {
		inGaps += b2u(g.Start <= p) & b2u(p < g.Start+g.Len)
		bad |= b2u(g.Len <= 0) | b2u(g.Start < 0) | b2u(g.Start+g.Len > T)
		if i > 0 {
			bad |= b2u(g.Start < prevStop)
		}
		prevStop = g.Start + g.Len
	}
	vrt.Cover("one-bit hole between two ranges", k1a&k1b == 1 && covered == 0)
	vrt.Cover("covered", covered == 1)
	vrt.Cover("in gap", inGaps == 1)
	if T > 0 {
		vrt.Assert(bad == 0, "Gaps: gaps are non-empty, inside the total range, sorted and disjoint")
	}
	ok := (covered == 1 && inGaps == 0) || (covered == 0 && inGaps == 1)
	vrt.AssertKnown(ok, "Gaps: every bit is in a range or in exactly one gap, never both", "K1", covered == 0 && k1a&k1b == 1)
}

func VerifGaps1() { verifGaps(1, 1<<40) }
func VerifGaps2() { verifGaps(2, 4096) }
func VerifGaps3() { verifGaps(3, 4096) }
func VerifGaps4() { verifGaps(4, 255) }
func VerifGaps5() { verifGaps(5, 63) }
func VerifGaps3Wide() { verifGaps(3, 1<<20) }

// VerifGapsEmpty: no ranges -> the total range is the only gap.
func VerifGapsEmpty() {
	T := vrt.Int64("total")
	vrt.Assume(0 < T)
	g := Gaps(Range{Start: 0, Len: T}, nil)
	vrt.Assert(len(g) == 1 && g[0].Start == 0 && g[0].Len == T, "Gaps of nothing is everything")
}

// VerifMinMax: span of two ranges.
func VerifMinMax() {
	a := Range{Start: vrt.Int64("as"), Len: vrt.Int64("al")}
	b := Range{Start: vrt.Int64("bs"), Len: vrt.Int64("bl")}
	vrt.Assume(0 <= a.Start && a.Start < 1<<50)
	vrt.Assume(0 <= b.Start && b.Start < 1<<50)
	vrt.Assume(0 <= a.Len && a.Len < 1<<50)
	vrt.Assume(0 <= b.Len && b.Len < 1<<50)
	m := MinMax(a, b)
	vrt.Assert(m.Start <= a.Start && m.Start <= b.Start && m.Stop() >= a.Stop() && m.Stop() >= b.Stop(), "MinMax spans both")
	vrt.Assert((m.Start == a.Start || m.Start == b.Start) && (m.Stop() == a.Stop() || m.Stop() == b.Stop()), "MinMax is tight")
}
