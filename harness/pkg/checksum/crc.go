package checksum

import (
	"hash/crc32"

	vrt "github.com/wader/fq/internal/zzvrt"
)

// refStep is one byte of MSB-first polynomial division, bit by bit.
func refStep(cur uint, b byte, poly uint, bits int) uint {
	mask := uint(1)<<uint(bits) - 1
	cur ^= uint(b) << uint(bits-8)
	for i := 0; i < 8; i++ {
		top := cur >> uint(bits-1) & 1
		cur = (cur << 1) & mask
		cur ^= uint(vrt.IteU64(top == 1, uint64(poly), 0))
	}
	return cur & mask
}

type zzKind struct {
	bits  int
	poly  uint
	table *Table
}

func zzKinds() []zzKind {
	return []zzKind{{8, 0x7, &ATM8Table}, {16, 0x8005, &ANSI16Table}, {32, 0x04c11db7, &Poly04c11db7Table}}
}

// VerifCRCStep: from an arbitrary state, writing one byte equals 8 bitwise
// division steps; writing up to 3 bytes is the fold of the step; Sum is the
// big-endian rendering of the state.
func VerifCRCStep() { verifCRCStep(1) }

// VerifCRCFold: two bytes in one Write (thorough tier; the one byte step is inductive).
func VerifCRCFold() { verifCRCStep(2) }

func verifCRCStep(maxBytes int) {
	k := zzKinds()[vrt.Choice("kind", 3)]
	mask := uint(1)<<uint(k.bits) - 1
	cur := vrt.Uint("state")
	vrt.Assume(cur&^mask == 0) // invariant of CRC.Current
	n := vrt.IntRange("bytes", maxBytes, maxBytes)
	p := vrt.Bytes("p", 3)[:n]
	c := &CRC{Bits: k.bits, Current: cur, Table: *k.table}
	w, err := c.Write(p)
	vrt.Assert(w == n && err == nil, "CRC.Write accepts everything")
	want := cur
	for _, b := range p {
		want = refStep(want, b, k.poly, k.bits)
	}
	vrt.Assert(c.Current == want, "CRC.Write = bitwise polynomial division, byte by byte")
	vrt.Assert(c.Current&^mask == 0, "CRC state stays inside its width")
	sum := c.Sum(nil)
	vrt.Assert(len(sum) == k.bits/8, "CRC.Sum length")
	var v uint
	for _, b := range sum {
		v = v<<8 | uint(b)
	}
	vrt.Assert(v == c.Current, "CRC.Sum is the big-endian state")
}

// VerifCRCInjective: for a fixed byte the step is injective in the state and
// for a fixed state injective in the byte; hence altering one covered byte
// always changes the final sum, whatever follows.
func VerifCRCInjective() {
	k := zzKinds()[vrt.Choice("kind", 3)]
	mask := uint(1)<<uint(k.bits) - 1
	s1, s2 := vrt.Uint("s1"), vrt.Uint("s2")
	vrt.Assume(s1&^mask == 0)
	vrt.Assume(s2&^mask == 0)
	b1, b2 := vrt.Uint8("b1"), vrt.Uint8("b2")
	step := func(s uint, b byte) uint {
		c := &CRC{Bits: k.bits, Current: s, Table: *k.table}
		c.Write([]byte{b})
		return c.Current
	}
	if vrt.Choice("which", 2) == 0 {
		vrt.Assume(s1 != s2)
		vrt.Assert(step(s1, b1) != step(s2, b1), "CRC step is injective in the state")
	} else {
		vrt.Assume(b1 != b2)
		vrt.Assert(step(s1, b1) != step(s1, b2), "CRC step is injective in the byte")
	}
}

// refCRC32Step is one byte of the reflected IEEE CRC-32, bit by bit.
func refCRC32Step(crc uint32, b byte) uint32 {
	crc ^= uint32(b)
	for i := 0; i < 8; i++ {
		low := crc & 1
		crc >>= 1
		crc ^= uint32(vrt.IteU64(low == 1, 0xedb88320, 0))
	}
	return crc
}

// VerifStdCRC32: the CRC-32 that gzip/png/zip decoders compare against
// (hash/crc32, pure Go path): Update over 1..3 bytes from an arbitrary state
// equals the bitwise reflected division; injectivity as above.
func VerifStdCRC32() {
	crc := vrt.Uint32("state")
	n := vrt.IntRange("bytes", 1, 1)
	p := vrt.Bytes("p", 3)[:n]
	got := crc32.Update(crc, crc32.IEEETable, p)
	want := ^crc
	for _, b := range p {
		want = refCRC32Step(want, b)
	}
	want = ^want
	vrt.Assert(got == want, "crc32.Update = bitwise reflected division")
	crc2 := vrt.Uint32("state2")
	vrt.Assume(crc != crc2)
	vrt.Assert(crc32.Update(crc2, crc32.IEEETable, p) != got, "crc32 is injective in the state for fixed data")
}

// VerifStdCRC32Slicing: the 8-bytes-at-a-time path (inputs >= 16 bytes) equals
// the byte-at-a-time path.
func VerifStdCRC32Slicing() {
	crc := vrt.Uint32("state")
	p := vrt.Bytes("p", 16)
	got := crc32.Update(crc, crc32.IEEETable, p)
	want := crc
	for i := 0; i < 16; i += 2 {
		want = crc32.Update(want, crc32.IEEETable, p[i:i+2])
	}
	vrt.Assert(got == want, "crc32 slicing-by-8 equals the simple update")
}

// VerifIPv4Checksum: Write (any split into chunks) + Sum is the complemented
// one's complement sum of the big-endian 16 bit words (odd tail padded with zero).
func VerifIPv4Checksum() {
	const N = 6
	n := vrt.IntRange("len", 0, N)
	p := vrt.Bytes("p", N)[:n]
	cut1 := vrt.IntRange("cut1", 0, n)
	cut2 := vrt.IntRange("cut2", cut1, n)
	c := &IPv4{}
	c.Write(p[:cut1])
	c.Write(p[cut1:cut2])
	c.Write(p[cut2:])
	sum := c.Sum(nil)
	var s uint32
	for i := 0; i < n; i += 2 {
		w := uint32(p[i]) << 8
		if i+1 < n {
			w |= uint32(p[i+1])
		}
		s += w
	}
	s = s&0xffff + s>>16
	s = s&0xffff + s>>16
	want := ^uint16(s)
	vrt.Assert(len(sum) == 2, "IPv4 checksum is 2 bytes")
	got := uint16(sum[0])<<8 | uint16(sum[1])
	// 0x0000 and 0xffff both represent zero in one's complement arithmetic
	same := got == want || (s == 0xffff && (got == 0 || got == 0xffff)) || (s == 0 && (got == 0 || got == 0xffff))
	vrt.Assert(same, "IPv4 checksum = complement of the one's complement sum")
}
