package interp

import (
	vrt "github.com/wader/fq/internal/zzvrt"
	"github.com/wader/fq/pkg/bitio"
	"github.com/wader/fq/pkg/decode"
	"github.com/wader/fq/pkg/ranges"
	"github.com/wader/fq/pkg/scalar"
	"github.com/wader/gojq"
)

func zzWalk(v *decode.Value, fn func(v *decode.Value)) {
	fn(v)
	if c, ok := v.V.(*decode.Compound); ok {
		for _, f := range c.Children {
			zzWalk(f, fn)
		}
	}
}

// zzPick returns one value of the tree, chosen by a case split: every value is
// checked on its own path (forks inside the check add up instead of multiplying).
func zzPick(root *decode.Value) *decode.Value {
	var all []*decode.Value
	zzWalk(root, func(v *decode.Value) { all = append(all, v) })
	return all[vrt.Choice("value", len(all))]
}

func zzDV(x any) *decode.Value {
	if d, ok := x.(DecodeValue); ok {
		return d.DecodeValue()
	}
	return nil
}

// ---------------------------------------------------------------------------
// C12: paths and navigation

func zzVerifNav(i int) {
	// navigation does not depend on the data: fixed bytes, symbolic structure parameters
	var t decode.ZZTree
	var ok bool
	if decode.ZZProgramName(i) == "symlayout" {
		t, ok = decode.ZZRunProgramShape(i) // without gap filling: the gap merge multiplies the orderings
	} else {
		t, ok = decode.ZZRunProgramData(i, true)
	}
	if !ok {
		return
	}
	root := t.Root
	n := 0
	func(v *decode.Value) {
		n++
		// the reported path resolves from the root back to the same value
		var cur any = makeDecodeValue(root, decodeValueValue)
		for _, part := range valuePath(v) {
			jv, isJV := cur.(gojq.JQValue)
			vrt.Assert(isJV, "path: every step goes through a jq value")
			if !isJV {
				return
			}
			switch p := part.(type) {
			case string:
				cur = jv.JQValueKey(p)
			case int:
				cur = jv.JQValueIndex(p)
			}
		}
		vrt.Assert(zzDV(cur) == v, "path: the reported path resolves from the root to the same value")
		me := makeDecodeValue(v, decodeValueValue).(gojq.JQValue)
		// parent contains it under its reported name or index
		if v.Parent != nil {
			p := me.JQValueKey("_parent")
			vrt.Assert(zzDV(p) == v.Parent, "navigation: _parent is the parent")
			pc := v.Parent.V.(*decode.Compound)
			pj := p.(gojq.JQValue)
			if pc.IsArray {
				vrt.Assert(me.JQValueKey("_index") == v.Index, "navigation: _index is the position in the parent array")
				vrt.Assert(zzDV(pj.JQValueIndex(v.Index)) == v, "navigation: parent[index] is the value")
				vrt.Assert(v.Index >= 0 && v.Index < len(pc.Children) && pc.Children[v.Index] == v, "navigation: index is the position among the siblings")
			} else {
				vrt.Assert(me.JQValueKey("_name") == v.Name, "navigation: _name is the field name")
				vrt.Assert(zzDV(pj.JQValueKey(v.Name)) == v, "navigation: parent[name] is the value")
				vrt.Assert(me.JQValueKey("_index") == nil, "navigation: struct fields have no index")
			}
		} else {
			vrt.Assert(me.JQValueKey("_parent") == nil, "navigation: the root has no parent")
		}
		// roots agree with the tree shape
		vrt.Assert(zzDV(me.JQValueKey("_root")) == root, "navigation: _root is the top value")
		br := v
		for br.Parent != nil && !br.IsRoot {
			br = br.Parent
		}
		vrt.Assert(zzDV(me.JQValueKey("_buffer_root")) == br, "navigation: _buffer_root is the nearest enclosing root")
		fr := v
		for fr.Parent != nil && !fr.IsRoot && fr.Format == nil {
			fr = fr.Parent
		}
		vrt.Assert(zzDV(me.JQValueKey("_format_root")) == fr, "navigation: _format_root is the nearest enclosing format or root")
	}(zzPick(root))
}

func VerifNavFlat()       { zzVerifNav(0) }
func VerifNavNested()     { zzVerifNav(1) }
func VerifNavSeek()       { zzVerifNav(2) }
func VerifNavFramed()     { zzVerifNav(3) }
func VerifNavRanges()     { zzVerifNav(4) }
func VerifNavSubformat()  { zzVerifNav(5) }
func VerifNavNestedRoot() { zzVerifNav(6) }
func VerifNavLoop()       { zzVerifNav(7) }
func VerifNavSymLayout()  { zzVerifNav(8) }
func VerifNavRootArray()  { zzVerifNav(9) }
func VerifNavErrors()     { zzVerifNav(10) }

// ---------------------------------------------------------------------------
// C05: tobits/tobytes of a value are exactly the input bits of its range

// zzReadAll reads all bits of a binary through its reader (pad included).
func zzReadAll(b Binary) ([]byte, int64, error) {
	br, err := b.toReader()
	if err != nil {
		return nil, 0, err
	}
	l := b.r.Len + b.pad
	buf := make([]byte, bitio.BitsByteCount(l))
	n, err := bitio.ReadAtFull(br, buf, l, 0)
	return buf, n, err
}

// zzSameBits: got[0:n) equals pad zero bits followed by src[start:start+n-pad).
func zzSameBits(got []byte, n int64, pad int64, src []byte, start int64) bool {
	var diff uint64
	for i := int64(0); i < n; i++ {
		var want uint64
		if i >= pad {
			want = bitio.ZZRefBit(src, start+(i-pad))
		}
		diff |= bitio.ZZRefBit(got, i) ^ want
	}
	return diff == 0
}

func zzVerifToBits(i int) {
	t, ok := decode.ZZRunProgram(i)
	if !ok {
		return
	}
	in := &Interp{}
	func(v *decode.Value) {
		if s, ok := v.V.(scalar.Scalarable); ok && s.ScalarFlags().IsSynthetic() {
			_, err := decodeValueBase{dv: v}.ToBinary()
			vrt.Assert(err != nil, "tobits: synthetic values have no bits")
			return
		}
		// which bytes is this value's buffer?
		broot := v.BufferRoot()
		src := t.Buf
		if broot != t.Root {
			src = t.Inner
		}
		r := v.InnerRange()
		start := vrt.Split(r.Start)
		n := vrt.Split(r.Len)
		if v.IsRoot && v == t.Root {
			vrt.Assert(start == 0, "tobits: the root value starts at 0")
		}
		dvv := makeDecodeValue(v, decodeValueValue)
		// bits
		ob := in._toBits(dvv, toBitsOpts{Unit: 1})
		bb, isB := ob.(Binary)
		vrt.Assert(isB, "tobits: succeeds for non-synthetic values")
		if !isB {
			return
		}
		got, k, err := zzReadAll(bb)
		vrt.Assert(err == nil && k == n, "tobits: length equals the value's range length")
		vrt.Assert(zzSameBits(got, n, 0, src, start), "tobits: exactly the input bits of the value's range")
		// bytes: left padded with zero bits to a byte boundary
		oB := in._toBits(dvv, toBitsOpts{Unit: 8})
		bB, isB := oB.(Binary)
		vrt.Assert(isB, "tobytes: succeeds for non-synthetic values")
		if !isB {
			return
		}
		pad := (8 - n%8) % 8
		got, k, err = zzReadAll(bB)
		vrt.Assert(err == nil && k == n+pad, "tobytes: length is the range length rounded up to bytes")
		vrt.Assert(zzSameBits(got, n+pad, pad, src, start), "tobytes: zero padding in front, then the input bits")
		// ._bits / ._bytes keys
		for _, key := range []string{"_bits", "_bytes"} {
			// (the base implementation is called directly: going through a raw leaf's
			// lazy string would force a string conversion of the symbolic bytes)
			kb, isB := decodeValueBase{dv: v}.JQValueKey(key).(Binary)
			vrt.Assert(isB, "._bits/._bytes: a binary for non-synthetic values")
			if !isB {
				continue
			}
			got, k, err := zzReadAll(kb)
			vrt.Assert(err == nil && k == n, "._bits/._bytes: length equals the value's range length")
			vrt.Assert(err != nil || zzSameBits(got, k, 0, src, start), "._bits/._bytes: exactly the input bits of the value's range")
		}
		// keep_range variant keeps the range and records the pad
		ok := in._toBits(dvv, toBitsOpts{Unit: 8, KeepRange: true}).(Binary)
		vrt.Assert(ok.r.Start == r.Start && ok.r.Len == r.Len && ok.pad == pad, "tobytesrange: keeps the range, pad = bits to the byte boundary")
	}(zzPick(t.Root))
}

func VerifToBitsFlat()       { zzVerifToBits(0) }
func VerifToBitsNested()     { zzVerifToBits(1) }
func VerifToBitsSeek()       { zzVerifToBits(2) }
func VerifToBitsFramed()     { zzVerifToBits(3) }
func VerifToBitsRanges()     { zzVerifToBits(4) }
func VerifToBitsSubformat()  { zzVerifToBits(5) }
func VerifToBitsNestedRoot() { zzVerifToBits(6) }
func VerifToBitsLoop()       { zzVerifToBits(7) }
func VerifToBitsRootArray()  { zzVerifToBits(9) }
func VerifToBitsErrors()     { zzVerifToBits(10) }

// VerifToBitsRangedRoot: a format decoded at a sub-range of a buffer that does not
// start at bit 0 (what `.frames[1] | mp3_frame` does: _decode passes the binary's
// range as Options.Range): tobits/tobytes/._bits of the root and of its fields
// are the input bits of their reported ranges.
func VerifToBitsRangedRoot() {
	buf := vrt.Bytes("buf", 4)
	off := int64(vrt.IntRange("off", 0, 17))
	fn := func(d *decode.D) any {
		d.FieldU8("a")
		d.FieldRawLen("b", d.BitsLeft())
		return nil
	}
	root, _, err := decode.Decode(nil, bitio.NewBitReader(buf, -1), decode.FormatFn(fn),
		decode.Options{IsRoot: true, FillGaps: true, Range: ranges.Range{Start: off, Len: 32 - off}})
	vrt.Assert(root != nil && err == nil, "ranged decode succeeds")
	vrt.Assert(root.Range.Start == off && root.Range.Len == 32-off, "ranged decode: the root reports the decoded range")
	c := root.V.(*decode.Compound)
	vs := []*decode.Value{root, c.Children[0], c.Children[1]}
	v := vs[vrt.Choice("value", 3)]
	b, berr := decodeValueBase{dv: v}.ToBinary()
	vrt.Assert(berr == nil, "ranged decode: tobytes succeeds")
	bb := b
	bb.unit = 1
	got, k, rerr := zzReadAll(bb)
	vrt.Assert(rerr == nil && k == v.Range.Len, "ranged decode: tobits length is the value's range length")
	vrt.Assert(zzSameBits(got, k, 0, buf, v.Range.Start), "ranged decode: tobits is exactly the input bits of the value's reported range")
	kb, isB := decodeValueBase{dv: v}.JQValueKey("_bits").(Binary)
	vrt.Assert(isB, "ranged decode: ._bits is a binary")
	got, k, rerr = zzReadAll(kb)
	vrt.Assert(rerr == nil && k == v.Range.Len && zzSameBits(got, k, 0, buf, v.Range.Start), "ranged decode: ._bits is exactly the input bits of the value's reported range")
}
