package interp

import (
	vrt "github.com/wader/fq/internal/zzvrt"
)

func VerifProbe() {
	x := vrt.Int64("x")
	vrt.Assert(x+1-1 == x, "probe")
}
