package interp

import (
	vrt "github.com/wader/fq/internal/zzvrt"
	"github.com/wader/fq/pkg/decode"
)

// zzRegistry builds a small registry: three formats in a probe group with
// probe orders that need sorting, one of them with a dependency on the group.
func zzRegistry() (*Registry, *decode.Group) {
	r := NewRegistry()
	probe := &decode.Group{Name: "probe"}
	dep := &decode.Group{}
	r.Format(&decode.Group{Name: "zeta"}, &decode.Format{ProbeOrder: 1, Groups: []*decode.Group{probe}})
	r.Format(&decode.Group{Name: "beta"}, &decode.Format{ProbeOrder: 2, Groups: []*decode.Group{probe}})
	r.Format(&decode.Group{Name: "alpha"}, &decode.Format{ProbeOrder: 2, Groups: []*decode.Group{probe},
		Dependencies: []decode.Dependency{{Groups: []*decode.Group{probe}, Out: dep}}})
	return r, dep
}

func zzOrder(g *decode.Group) string {
	s := ""
	for _, f := range g.Formats {
		s += f.Name + ","
	}
	return s
}

// VerifRegistryConcurrent: the first two users of the process-wide registry
// arrive concurrently (two decode jobs started at the same time): under every
// interleaving with up to `pre` pre-emptions at the loads/stores of pkg/interp
// (and of the sort it calls) both see the fully resolved, sorted groups - the
// same as a lone run - without a data race, deadlock or panic.
func zzRegistryConcurrent(pre int) {
	// the lone run
	r0, dep0 := zzRegistry()
	g0, _ := r0.Group("probe")
	want := zzOrder(g0) + "|" + zzOrder(dep0) + "|" + zzOrder(r0.MustAll())
	vrt.Assert(zzOrder(g0) == "zeta,alpha,beta,", "registry: probe order is by ProbeOrder then name")
	vrt.Threads(pre, "pkg/interp", "slices")
	r, dep := zzRegistry()
	res := make(chan string, 2)
	job := func() {
		g, err := r.Group("probe")
		if err != nil {
			res <- "error"
			return
		}
		res <- zzOrder(g) + "|" + zzOrder(dep) + "|" + zzOrder(r.MustAll())
	}
	go job()
	go job()
	a := <-res
	b := <-res
	vrt.Assert(a == want && b == want, "registry: concurrent first users see the resolved, sorted groups of a lone run")
}

func VerifRegistryConcurrent()  { zzRegistryConcurrent(1) }
func VerifRegistryConcurrent2() { zzRegistryConcurrent(2) }
