package interp

import (
	"bytes"
	"strconv"
	"strings"

	vrt "github.com/wader/fq/internal/zzvrt"
	"github.com/wader/fq/pkg/bitio"
	"github.com/wader/fq/pkg/ranges"
)

// VerifHexdumpLayout: the real hexdump()/dump()/dumpEx()/columnwriter path on
// a binary over symbolic bytes: every byte that overlaps the value's bit range
// is shown exactly once, in the row whose address plus the cell's column index
// is the byte's offset, as its two hex digits and its ASCII rendering; every
// other cell is blank (or the end-of-buffer marker); row addresses are
// consecutive multiples of the line width.
func zzHexdumpLayout(N int, maxLine int) {
	buf := vrt.Bytes("buf", N)
	lb := vrt.IntRange("line_bytes", 1, maxLine)
	startBit := int64(vrt.IntRange("start_bit", 0, N*8))
	lenBits := int64(vrt.IntRange("len_bits", 0, N*8))
	vrt.Assume(startBit+lenBits <= int64(N*8))
	// bit positions inside a byte: aligned and one unaligned representative each for start and length
	vrt.Assume(startBit%8 == 0 || startBit%8 == 5)
	vrt.Assume(lenBits%8 == 0 || lenBits%8 == 4)
	bv := Binary{br: bitio.NewBitReader(buf, -1), r: ranges.Range{Start: startBit, Len: lenBits}, unit: 8}
	opts := &Options{LineBytes: lb, Addrbase: 16, Sizebase: 10, Decorator: PlainDecorator}
	var out bytes.Buffer
	err := hexdump(&out, bv, opts)
	vrt.Assert(err == nil, "dump: hexdump of a valid binary succeeds")

	hw := lb*3 - 1
	firstByte, lastByte := int64(0), int64(-1)
	if lenBits > 0 {
		firstByte = startBit / 8
		lastByte = (startBit + lenBits - 1) / 8
	}
	lines := strings.Split(strings.TrimSuffix(out.String(), "\n"), "\n")
	vrt.Assert(len(lines) >= 1, "dump: header line present")
	nextAddr := int64(-1)
	shown := int64(0)
	for li, line := range lines {
		aw := strings.IndexByte(line, '|')
		vrt.Assert(aw >= 0 && len(line) >= aw+1+hw+1+lb+1, "dump: every line has the address, hex and ASCII columns")
		addr := strings.TrimSpace(line[:aw])
		hexcol := line[aw+1 : aw+1+hw]
		vrt.Assert(line[aw+1+hw] == '|', "dump: column bar after the hex column")
		asciicol := line[aw+1+hw+1 : aw+1+hw+1+lb]
		vrt.Assert(line[aw+1+hw+1+lb] == '|', "dump: column bar after the ASCII column")
		if li == 0 {
			vrt.Assert(addr == "", "dump: first line is the column header")
			continue
		}
		vrt.Assert(strings.HasPrefix(addr, "0x"), "dump: data rows carry an address")
		a, perr := strconv.ParseInt(strings.TrimPrefix(addr, "0x"), 16, 64)
		vrt.Assert(perr == nil, "dump: address is a hex number")
		vrt.Assert(a%int64(lb) == 0, "dump: row addresses are multiples of the line width")
		if nextAddr >= 0 {
			vrt.Assert(a == nextAddr, "dump: row addresses are consecutive")
		} else {
			vrt.Assert(lenBits > 0 && a == firstByte/int64(lb)*int64(lb), "dump: first row is the row of the first byte")
		}
		nextAddr = a + int64(lb)
		for j := 0; j < lb; j++ {
			off := a + int64(j)
			h0, h1, c := hexcol[3*j], hexcol[3*j+1], asciicol[j]
			if off >= firstByte && off <= lastByte {
				b := buf[off]
				const digits = "0123456789abcdef"
				vrt.Assert(h0 == digits[b>>4], "dump: the hex cell at (row address + column) shows the byte at that offset (high digit)")
				vrt.Assert(h1 == digits[b&0xf], "dump: the hex cell at (row address + column) shows the byte at that offset (low digit)")
				want := byte(vrt.IteU64(b >= 0x20, vrt.IteU64(b <= 0x7e, uint64(b), '.'), '.'))
				vrt.Assert(c == want, "dump: the ASCII cell at (row address + column) shows the byte at that offset")
				shown++
			} else {
				vrt.Assert(h0 == ' ' && h1 == ' ', "dump: cells outside the value are blank")
				// the end-of-buffer marker may follow the last byte
				vrt.Assert(c == ' ' || (c == '|' && off == int64(N) && lastByte == int64(N)-1), "dump: ASCII cells outside the value are blank")
			}
		}
	}
	vrt.Assert(shown == lastByte-firstByte+1, "dump: every byte overlapping the value is shown exactly once")
	if lenBits > 0 {
		vrt.Assert(nextAddr == (lastByte/int64(lb)+1)*int64(lb), "dump: last row is the row of the last byte")
	} else {
		vrt.Assert(len(lines) == 1, "dump: an empty value shows no data rows")
	}
}

func VerifHexdumpLayout()     { zzHexdumpLayout(3, 4) }
func VerifHexdumpLayoutWide() { zzHexdumpLayout(4, 6) }
