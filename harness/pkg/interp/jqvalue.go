package interp

import (
	"math"
	"math/big"
	"sort"

	"github.com/wader/fq/internal/gojqx"
	vrt "github.com/wader/fq/internal/zzvrt"
	"github.com/wader/fq/pkg/decode"
	"github.com/wader/gojq"
)

// Reduced form of C08: the jq VM observes a decode value only through the
// JQValue methods; for every such method the result on the wrapper must be what
// the corresponding jq primitive gives on the plain value (tovalue). The
// reference semantics of the primitives (length, type, tonumber, keys, has,
// index) are written here from the jq manual, NOT taken from gojq's code.

func zzIsErr(v any) bool { _, ok := v.(error); return ok }

// zzRefLength: jq `length`: null 0, number absolute value, string number of
// code points, array/object number of elements; boolean is an error.
func zzRefLength(v any) (any, bool) {
	switch x := v.(type) {
	case nil:
		return 0, true
	case int:
		if x < 0 {
			return -x, true
		}
		return x, true
	case float64:
		return math.Abs(x), true
	case *big.Int:
		return new(big.Int).Abs(x), true
	case string:
		return len([]rune(x)), true
	case []any:
		return len(x), true
	case map[string]any:
		return len(x), true
	}
	return nil, false
}

func zzNumEq(a, b any) bool {
	switch x := a.(type) {
	case int:
		y, ok := b.(int)
		return ok && x == y
	case float64:
		y, ok := b.(float64)
		return ok && (x == y || x != x && y != y)
	case *big.Int:
		y, ok := b.(*big.Int)
		return ok && x.Cmp(y) == 0
	}
	return false
}

// VerifJQNumber: number wrappers.
func VerifJQNumber() {
	var plain any
	switch vrt.Choice("kind", 3) {
	case 0:
		plain = vrt.Int("i")
	case 1:
		plain = []float64{0, -1.5, 2.25, math.Inf(-1), 1e300, -5e-324}[vrt.Choice("floatclass", 6)]
	case 2:
		b := new(big.Int).SetUint64(vrt.Uint64("hi"))
		b.Lsh(b, 64).Or(b, new(big.Int).SetUint64(vrt.Uint64("lo")))
		if vrt.Choice("neg", 2) == 1 {
			b.Neg(b)
		}
		plain = b
	}
	w := gojqx.Number{V: plain}
	vrt.Assert(zzNumEq(w.JQValueToGoJQ(), plain) && zzNumEq(w.JQValueToNumber(), plain), "number value: tovalue and tonumber are the number")
	vrt.Assert(w.JQValueType() == gojq.JQTypeNumber, "number value: type")
	want, _ := zzRefLength(plain)
	vrt.Cover("negative number", zzIsNeg(plain))
	vrt.Assert(zzNumEq(w.JQValueLength(), want), "number value: length is the absolute value, as for the plain number")
	vrt.Assert(zzIsErr(w.JQValueKeys()) && zzIsErr(w.JQValueHas("a")) && zzIsErr(w.JQValueKey("a")) && zzIsErr(w.JQValueIndex(0)) && zzIsErr(w.JQValueSlice(0, 0)) && zzIsErr(w.JQValueEach()), "number value: keys/has/key/index/slice/each are errors, as for the plain number")
}

func zzIsNeg(v any) bool {
	switch x := v.(type) {
	case int:
		return x < 0
	case float64:
		return x < 0
	case *big.Int:
		return x.Sign() < 0
	}
	return false
}

// VerifJQString: string wrappers over symbolic ASCII text.
func VerifJQString() {
	n := vrt.IntRange("len", 0, 3)
	bs := vrt.Bytes("s", 3)[:n]
	for _, c := range bs {
		vrt.Assume(c < 0x80)
	}
	plain := string(bs)
	w := gojqx.String([]rune(plain))
	vrt.Assert(w.JQValueToGoJQ() == plain && w.JQValueToString() == plain, "string value: tovalue and tostring are the string")
	vrt.Assert(w.JQValueLength() == n && w.JQValueSliceLen() == n, "string value: length is the number of code points")
	vrt.Assert(w.JQValueType() == gojq.JQTypeString, "string value: type")
	s := vrt.IntRange("from", 0, n)
	e := vrt.IntRange("to", s, n)
	vrt.Assert(w.JQValueSlice(s, e) == plain[s:e], "string value: slice")
	vrt.Assert(zzIsErr(w.JQValueKeys()) && zzIsErr(w.JQValueHas("a")) && zzIsErr(w.JQValueKey("a")) && zzIsErr(w.JQValueEach()), "string value: keys/has/key/each are errors")
}

// VerifJQOther: boolean and null wrappers.
func VerifJQOther() {
	b := vrt.Bool("b")
	wb := gojqx.Boolean(b)
	vrt.Assert(wb.JQValueToGoJQ() == b && wb.JQValueType() == gojq.JQTypeBoolean, "boolean value: tovalue and type")
	vrt.Assert(zzIsErr(wb.JQValueLength()) && zzIsErr(wb.JQValueToNumber()) && zzIsErr(wb.JQValueKeys()), "boolean value: length/tonumber/keys are errors, as for the plain boolean")
	want := "false"
	if b {
		want = "true"
	}
	vrt.Assert(wb.JQValueToString() == want, "boolean value: tostring")
	wn := gojqx.Null{}
	vrt.Assert(wn.JQValueToGoJQ() == nil && wn.JQValueLength() == 0 && wn.JQValueType() == gojq.JQTypeNull, "null value: tovalue, length 0, type")
	vrt.Assert(zzIsErr(wn.JQValueKeys()) && zzIsErr(wn.JQValueToNumber()), "null value: keys/tonumber are errors")
}

// zzVerifJQCompound: struct and array decode values of the C03 trees behave as
// their plain objects/arrays for length, keys (as a set: field order is a
// documented difference), has, key/index, slice and iteration.
func zzVerifJQCompound(i int) {
	t, ok := decode.ZZRunProgramData(i, true)
	if !ok {
		return
	}
	v := zzPick(t.Root)
	c, isC := v.V.(*decode.Compound)
	if !isC {
		// scalar leaf: the wrapper answers like its plain value
		dvv := makeDecodeValue(v, decodeValueValue).(gojq.JQValue)
		plain := dvv.JQValueToGoJQ()
		if want, ok := zzRefLength(plain); ok {
			got := dvv.JQValueLength()
			switch w := want.(type) {
			case int:
				vrt.Assert(got == w, "decode value: length as for its plain value")
			default:
				vrt.Assert(zzNumEq(got, want), "decode value: length as for its plain value")
			}
		}
		return
	}
	dvv := makeDecodeValue(v, decodeValueValue).(gojq.JQValue)
	plain := dvv.JQValueToGoJQ()
	n := len(c.Children)
	vrt.Assert(dvv.JQValueLength() == n && dvv.JQValueSliceLen() == n, "compound value: length is the number of fields/elements")
	if c.IsArray {
		pa, isA := plain.([]any)
		vrt.Assert(isA && len(pa) == n && dvv.JQValueType() == gojq.JQTypeArray, "array value: plain value is an array of the same length")
		k := []int{-2, -1, 0, 1, n / 2, n - 1, n, n + 1}[vrt.Choice("index", 8)]
		vrt.Assert(dvv.JQValueHas(k) == (k >= 0 && k < n), "array value: has(i) iff 0 <= i < length")
		if k >= 0 && k < n {
			vrt.Assert(zzDV(dvv.JQValueIndex(k)) == c.Children[k], "array value: index i is the i-th element")
		}
		vrt.Assert(dvv.JQValueIndex(-1) == nil && dvv.JQValueIndex(-2) == nil, "array value: index outside is null")
		keys, _ := dvv.JQValueKeys().([]any)
		vrt.Assert(len(keys) == n, "array value: keys are the indices")
		for j, kk := range keys {
			vrt.Assert(kk == j, "array value: keys are 0..n-1 in order")
		}
		s := []int{0, min(1, n), n / 2}[vrt.Choice("from", 3)]
		e := []int{s, (s + n + 1) / 2, n}[vrt.Choice("to", 3)]
		sl, _ := dvv.JQValueSlice(s, e).([]any)
		vrt.Assert(len(sl) == e-s, "array value: slice length")
		for j := range sl {
			vrt.Assert(zzDV(sl[j]) == c.Children[s+j], "array value: slice elements")
		}
		each, _ := dvv.JQValueEach().([]gojq.PathValue)
		vrt.Assert(len(each) == n, "array value: iteration yields every element")
		for j := range each {
			vrt.Assert(each[j].Path == j && zzDV(each[j].Value) == c.Children[j], "array value: iteration order and paths")
		}
		return
	}
	pm, isM := plain.(map[string]any)
	vrt.Assert(isM && len(pm) == n && dvv.JQValueType() == gojq.JQTypeObject, "struct value: plain value is an object with one member per field")
	keys, _ := dvv.JQValueKeys().([]any)
	var ks, ps []string
	for _, k := range keys {
		ks = append(ks, k.(string))
	}
	for k := range pm {
		ps = append(ps, k)
	}
	sort.Strings(ks)
	sort.Strings(ps)
	same := len(ks) == len(ps)
	for j := 0; same && j < len(ks); j++ {
		same = ks[j] == ps[j]
	}
	vrt.Assert(same, "struct value: keys are the keys of the plain object (as a set)")
	for _, f := range c.Children {
		vrt.Assert(dvv.JQValueHas(f.Name) == true, "struct value: has(name) for every field")
		vrt.Assert(zzDV(dvv.JQValueKey(f.Name)) == f, "struct value: .name is the field")
		vrt.Assert(zzDV(pm[f.Name]) == f, "struct value: plain object member is the field")
	}
	vrt.Assert(dvv.JQValueHas("zz_no_such_field") == false && dvv.JQValueKey("zz_no_such_field") == nil, "struct value: missing names are absent / null")
	each, _ := dvv.JQValueEach().([]gojq.PathValue)
	vrt.Assert(len(each) == n, "struct value: iteration yields every field")
	for j := range each {
		vrt.Assert(each[j].Path == c.Children[j].Name && zzDV(each[j].Value) == c.Children[j], "struct value: iteration in input order")
	}
}

func VerifJQCompoundNested()     { zzVerifJQCompound(1) }
func VerifJQCompoundSeek()       { zzVerifJQCompound(2) }
func VerifJQCompoundNestedRoot() { zzVerifJQCompound(6) }
func VerifJQCompoundLoop()       { zzVerifJQCompound(7) }
func VerifJQCompoundRootArray()  { zzVerifJQCompound(9) }
