package interp

import (
	"math/big"

	vrt "github.com/wader/fq/internal/zzvrt"
	"github.com/wader/fq/pkg/bitio"
	"github.com/wader/fq/pkg/ranges"
)

// zzBin builds a binary over symbolic bytes with a bit granular symbolic-choice range.
func zzBin(name string, nBytes int) (Binary, []byte, int64, int64, int) {
	src := vrt.Bytes(name, nBytes)
	unit := []int{1, 8}[vrt.Choice(name+".unit", 2)]
	start := int64([]int{0, 3, 8, 9}[vrt.Choice(name+".start", 4)])
	lens := []int{0, 1, 7, 8, 9, 13, 8*nBytes - 9}
	n := int64(lens[vrt.Choice(name+".len", len(lens))])
	return Binary{br: bitio.NewBitReader(src, -1), r: ranges.Range{Start: start, Len: n}, unit: unit}, src, start, n, unit
}

func zzBits(b Binary) ([]byte, int64, bool) {
	got, k, err := zzReadAll(b)
	return got, k, err == nil
}

// VerifBinarySlice: slicing and indexing a binary (arguments already clamped the
// way gojq's funcSlice/funcIndex2 clamp them: 0 <= start <= end <= length,
// 0 <= index < length) yield the sub-sequence / the unit-wide integer of the
// reference bit string, in the binary's own unit; size/start/stop keys in units.
func VerifBinarySlice() {
	b, src, start, n, unit := zzBin("b", 4)
	length := b.JQValueLength().(int)
	vrt.Assert(int64(length) == n/int64(unit), "binary: length is the range length in whole units")
	vrt.Assert(b.JQValueSliceLen().(int) == length, "binary: slice length = length")
	s := vrt.IntRange("from", 0, length)
	e := vrt.IntRange("to", s, length)
	sl, ok := b.JQValueSlice(s, e).(Binary)
	vrt.Assert(ok, "binary: slice is a binary")
	got, k, ok2 := zzBits(sl)
	vrt.Assert(ok2 && k == int64((e-s)*unit), "binary: slice has (to-from) units")
	vrt.Assert(zzSameBits(got, k, 0, src, start+int64(s*unit)), "binary: slice bits = sub-sequence of the source bits")
	vrt.Assert(sl.unit == unit, "binary: slice keeps the unit")
}

// VerifBinaryIndexKeys: indexing and the size/start/stop/unit/bits/bytes keys.
func VerifBinaryIndexKeys() {
	b, src, start, n, unit := zzBin("b", 4)
	length := b.JQValueLength().(int)
	if length > 0 {
		i := vrt.IntRange("index", 0, length-1)
		v, ok := b.JQValueIndex(i).(*big.Int)
		vrt.Assert(ok, "binary: index is a number")
		if ok {
			var want uint64
			for j := 0; j < unit; j++ {
				want = want<<1 | bitio.ZZRefBit(src, start+int64(i*unit+j))
			}
			vrt.Assert(v.IsUint64() && v.Uint64() == want, "binary: index = the unit-wide unsigned integer at that position")
		}
	}
	vrt.Assert(b.JQValueIndex(-1) == nil && b.JQValueIndex(-2) == nil, "binary: index outside is null")
	// keys
	size := b.JQValueKey("size").(*big.Int)
	st := b.JQValueKey("start").(*big.Int)
	sp := b.JQValueKey("stop").(*big.Int)
	vrt.Assert(size.Int64() == n/int64(unit), "binary: size in units")
	vrt.Assert(st.Int64() == start/int64(unit), "binary: start in units")
	stop := start + n
	wantStop := stop / int64(unit)
	if stop%int64(unit) != 0 {
		wantStop++
	}
	vrt.Assert(sp.Int64() == wantStop, "binary: stop in units, rounded up")
	vrt.Assert(b.JQValueKey("unit") == unit, "binary: unit key")
	bb := b.JQValueKey("bits").(Binary)
	vrt.Assert(bb.unit == 1 && bb.r == b.r, "binary: .bits is the same range in bit units")
	by := b.JQValueKey("bytes").(Binary)
	vrt.Assert(by.unit == 8 && by.r == b.r, "binary: .bytes is the same range in byte units")
}

// VerifBinaryToNumber: tonumber is the unsigned big-endian value of the bits.
func VerifBinaryToNumber() {
	b, src, start, n, _ := zzBin("b", 4)
	v, ok := b.JQValueToNumber().(*big.Int)
	vrt.Assert(ok, "binary: tonumber is a number")
	if !ok {
		return
	}
	var diff uint64
	for i := int64(0); i < n; i++ {
		diff |= uint64(v.Bit(int(n-1-i))) ^ bitio.ZZRefBit(src, start+i)
	}
	vrt.Assert(diff == 0 && v.Sign() >= 0 && int64(v.BitLen()) <= n, "binary: tonumber = unsigned value of the bits, most significant first")
}

// VerifBinaryArrayConcat: a binary array of byte numbers, strings and binaries is
// the concatenation of its members' bits; numbers outside 0..255 are an error,
// never a wrapped byte; the fast path (only small numbers and strings) and the
// general path agree; splitting a binary in two and concatenating restores it.
func VerifBinaryArrayConcat() {
	b, src, start, n, unit := zzBin("b", 3)
	length := n / int64(unit)
	k := vrt.IntRange("split", 0, int(length))
	left := b.JQValueSlice(0, k).(Binary)
	right := b.JQValueSlice(k, int(length)).(Binary)
	br, err := toBitReaderEx([]any{left, right}, false)
	vrt.Assert(err == nil, "binary array of two slices is a binary")
	if err != nil {
		return
	}
	total := length * int64(unit)
	buf := make([]byte, bitio.BitsByteCount(total))
	got, rerr := bitio.ReadAtFull(br, buf, total, 0)
	vrt.Assert(rerr == nil && got == total, "concatenation has the bits of both parts")
	vrt.Assert(zzSameBits(buf, total, 0, src, start), "concatenating the two halves of a split restores the bits")
	_, e2 := bitio.ReadAtFull(br, make([]byte, len(buf)+1), total+1, 0)
	vrt.Assert(e2 != nil, "concatenation has no bits beyond its parts")
}

func VerifBinaryArrayNumbers() {
	// members: int, float64 class, big int, 1-byte string
	x := vrt.Int("x")
	s := vrt.Bytes("s", 1)
	vrt.Assume(s[0] < 0x80)
	members := []any{x, string(s)}
	if vrt.Choice("withBig", 2) == 1 {
		// big integer member of up to 128 bits, either sign (hi = 0: one machine word)
		bg := new(big.Int).SetUint64(vrt.Uint64("bighi"))
		bg.Lsh(bg, 64)
		bg.Or(bg, new(big.Int).SetUint64(vrt.Uint64("big")))
		if vrt.Choice("bigneg", 2) == 1 {
			bg.Neg(bg)
		}
		members = append(members, bg)
	}
	br, err := toBitReaderEx(members, false)
	inRange := x >= 0 && x <= 255
	if len(members) == 3 {
		bg := members[2].(*big.Int)
		inRange = inRange && bg.Sign() >= 0 && bg.IsUint64() && bg.Uint64() <= 255
	}
	if !inRange {
		vrt.Assert(err != nil, "binary array: a number outside 0..255 is an error, never a wrapped byte")
		return
	}
	vrt.Assert(err == nil, "binary array of bytes and strings is a binary")
	if err != nil {
		return
	}
	want := []byte{byte(x), s[0]}
	if len(members) == 3 {
		want = append(want, byte(members[2].(*big.Int).Uint64()))
	}
	total := int64(8 * len(want))
	buf := make([]byte, len(want))
	got, rerr := bitio.ReadAtFull(br, buf, total, 0)
	vrt.Assert(rerr == nil && got == total, "binary array: one byte per number, the bytes of strings")
	vrt.Assert(zzSameBits(buf, total, 0, want, 0), "binary array: bytes in order")
}

// VerifNumberToBits: a non-negative number as a binary is its minimal
// big-endian bit representation (0 is one zero bit).
func VerifNumberToBits() {
	x := vrt.Uint64("x")
	var v any = new(big.Int).SetUint64(x)
	if x <= 1<<62 && vrt.Choice("asInt", 2) == 1 {
		v = int(x)
	}
	br, err := toBitReaderEx(v, false)
	vrt.Assert(err == nil, "number to bits succeeds")
	if err != nil {
		return
	}
	l, _ := br.SeekBits(0, 2)
	br.SeekBits(0, 0)
	l = vrt.Split(l)
	wantLen := int64(1)
	for i := 63; i >= 0; i-- {
		if x>>uint(i)&1 == 1 {
			wantLen = int64(i + 1)
			break
		}
	}
	vrt.Assert(l == wantLen, "number to bits: minimal length (zero is one bit)")
	buf := make([]byte, 8)
	bitio.ReadAtFull(br, buf, l, 0)
	var val uint64
	for i := int64(0); i < l; i++ {
		val = val<<1 | bitio.ZZRefBit(buf, i)
	}
	vrt.Assert(val == x, "number to bits: big-endian value")
}

// VerifBinaryPadArray: a zero padded binary (what x|tobits(n) / x|tobytes(n)
// produce) as a later member of a binary array: the array's bits are the first
// member's bits, then exactly pad zero bits, then the member's own bits -
// whatever the destination buffers held before.
func VerifBinaryPadArray() {
	a, asrc, astart, an, _ := zzBin("a", 3)
	bsrc := vrt.Bytes("b", 2)
	bn := int64([]int{1, 4, 8, 11}[vrt.Choice("b.len", 4)])
	padTo := int64([]int{3, 4, 8, 12}[vrt.Choice("padTo", 4)])
	pad := (padTo - bn%padTo) % padTo
	var in0 ToBinary = Binary{br: bitio.NewBitReader(bsrc, -1), r: ranges.Range{Start: 0, Len: bn}, unit: 1}
	pv := (*Interp)(nil)._toBits(in0, toBitsOpts{Unit: 1, PadToUnits: int(padTo)})
	b, isBin := pv.(Binary)
	vrt.Assert(isBin && b.r.Len == pad+bn, "tobits(n): length is padded up to a multiple of n")
	if !isBin {
		return
	}
	br, err := toBitReaderEx([]any{a, b}, false)
	vrt.Assert(err == nil, "binary array with a padded member is a binary")
	if err != nil {
		return
	}
	total := an + pad + bn
	buf := vrt.Bytes("stale", 8) // destination with arbitrary stale content
	got, rerr := bitio.ReadAtFull(br, buf, total, 0)
	vrt.Assert(rerr == nil && got == total, "padded array: length is the sum of the parts and the padding")
	vrt.Assert(zzSameBits(buf, an, 0, asrc, astart), "padded array: first member's bits")
	var padBits uint64
	for i := int64(0); i < pad; i++ {
		padBits |= bitio.ZZRefBit(buf, an+i)
	}
	vrt.Assert(padBits == 0, "padded array: padding bits are zero")
	var diff uint64
	for i := int64(0); i < bn; i++ {
		diff |= bitio.ZZRefBit(buf, an+pad+i) ^ bitio.ZZRefBit(bsrc, i)
	}
	vrt.Assert(diff == 0, "padded array: padded member's own bits follow the padding")
}
