package interp

import (
	"math"
	"math/big"

	"github.com/wader/fq/internal/gojqx"
	vrt "github.com/wader/fq/internal/zzvrt"
	"github.com/wader/fq/pkg/bitio"
	"github.com/wader/fq/pkg/ranges"
	"github.com/wader/gojq"
)

// Modes of the symbolic jq value generator.
const (
	zzFull  = iota // input value: every kind
	zzArg          // ordinary argument: every kind, objects have the single member "a"
	zzOpts         // option argument: like zzArg, objects have one member named like fq's option members
	zzCount        // argument used as a size (shift amount): numbers in (70, 2^32] excluded, big integers are class representatives
	zzSmall        // ignored input of multi-argument functions: nil or an int
	zzElem         // element of a container: nil, bool, int, 4 float classes, string
)

// ZZJQ returns a symbolic jq value: nil, bool, int (any 64 bit value), float64
// (16 class representatives), big integer (up to 128 bits, either sign), string
// of 0..2 symbolic ASCII bytes, array/object of one element, binary over 0..2 bytes.
func ZZJQ(name string, depth int) any { return zzJQ(name, zzFull) }

var zzFloatClasses = []float64{math.NaN(), math.Inf(1), math.Inf(-1), 0, math.Copysign(0, -1), 0.5, -1, 3, 7.75, 200, 4294967297, 9223372036854775808, -9223372036854775808, 1e30, -1e30, 5e-324}

func zzJQ(name string, mode int) any {
	kinds := 9
	if mode == zzFull {
		kinds = 10 // + scalar JQValue wrappers (what decode values of scalars look like to a function)
	}
	switch mode {
	case zzSmall:
		if vrt.Choice(name+".kind", 2) == 0 {
			return nil
		}
		return vrt.Int(name + ".int")
	case zzElem:
		kinds = 6
	case zzCount:
		kinds = 6
	}
	switch vrt.Choice(name+".kind", kinds) {
	case 0:
		return nil
	case 1:
		return vrt.Bool(name + ".bool")
	case 2:
		if mode == zzCount {
			// sizes: class representatives (symbolic-by-symbolic shifts inside math/big's word
			// loops leave the solver undecided; measured 3 s per query, unknowns at 30 s)
			cl := []int{-1, math.MinInt64, 0, 1, 63, 64, 65, 70, 1<<32 + 1, 1 << 60, math.MaxInt64}
			return cl[vrt.Choice(name+".intclass", len(cl))]
		}
		v := vrt.Int(name + ".int")
		return v
	case 3:
		// floats: one representative per class. Fully symbolic float64 inputs make every
		// float->int conversion an SMT floating point query that z3 does not decide within
		// the time limit (measured).
		cl := zzFloatClasses
		if mode == zzElem {
			cl = []float64{math.NaN(), -1, 2.5, 1e30}
		}
		return cl[vrt.Choice(name+".floatclass", len(cl))]
	case 4:
		if mode == zzCount {
			// big integer sizes: class representatives (a symbolic big shift amount makes
			// math/big's word loops symbolic-by-symbolic shifts the solver does not finish)
			cl := []string{"-1", "-18446744073709551617", "0", "1", "63", "64", "65", "4294967297", "18446744073709551616", "1267650600228229401496703205376"}
			b, _ := new(big.Int).SetString(cl[vrt.Choice(name+".bigclass", len(cl))], 10)
			return b
		}
		hi, lo := vrt.Uint64(name+".bighi"), vrt.Uint64(name+".biglo")
		b := new(big.Int).SetUint64(hi)
		b.Lsh(b, 64)
		b.Or(b, new(big.Int).SetUint64(lo))
		if vrt.Choice(name+".bigneg", 2) == 1 {
			b.Neg(b)
		}
		return b
	case 5:
		n := vrt.IntRange(name+".strlen", 0, 2)
		bs := vrt.Bytes(name+".str", 2)[:n]
		for _, c := range bs {
			vrt.Assume(c < 0x80)
		}
		return string(bs)
	case 6:
		return []any{zzJQ(name+".elem", zzElem)}
	case 9:
		switch vrt.Choice(name+".wrapped", 4) {
		case 0:
			return gojqx.Null{}
		case 1:
			return gojqx.Boolean(vrt.Bool(name + ".wbool"))
		case 2:
			return gojqx.Number{V: vrt.Int(name + ".wint")}
		default:
			return gojqx.String([]rune{'a'})
		}
	case 7:
		key := "a"
		if mode == zzFull {
			// input objects: also the empty key and a key that looks like an XML attribute
			key = []string{"a", "", "@b"}[vrt.Choice(name+".key", 3)]
		}
		if mode == zzOpts {
			// option objects: one member, named like the members of fq's option structs
			keys := []string{"a", "indent", "unit", "pad_to_units", "keep_range", "encoding", "comma", "comment", "name", "seq", "array", "attribute_prefix"}
			key = keys[vrt.Choice(name+".key", len(keys))]
		}
		val := zzJQ(name+".val", zzElem)
		if key == "unit" || key == "pad_to_units" {
			// units 17..2^40 take the same path as 1..16 (remainder by a symbolic divisor is slow to decide): outside the claim
			switch v := val.(type) {
			case int:
				vrt.Assume(v <= 16 || v > 1<<40)
			case *big.Int:
				if v.IsInt64() {
					i := v.Int64()
					vrt.Assume(i <= 16 || i > 1<<40)
				}
			}
		}
		if key == "indent" {
			// indents 9..1024 take the same path as 0..8 (strings.Repeat with a valid count): outside the claim
			switch v := val.(type) {
			case int:
				vrt.Assume(v <= 8 || v > 1024)
			case *big.Int:
				if v.IsInt64() {
					i := v.Int64()
					vrt.Assume(i <= 8 || i > 1024)
				}
			}
		}
		return map[string]any{key: val}
	default:
		n := vrt.IntRange(name+".binlen", 0, 2)
		bs := vrt.Bytes(name+".bin", 2)[:n]
		unit := []int{1, 8}[vrt.Choice(name+".unit", 2)]
		return Binary{br: bitio.NewBitReader(bs, -1), r: ranges.Range{Start: 0, Len: int64(8 * n)}, unit: unit}
	}
}

// ZZFunction looks up a Go function registered with the interpreter.
func ZZFunction(name string, arity int) (gojqx.Function, bool) {
	for _, ef := range DefaultRegistry.EnvFuncFns {
		f := ef(&Interp{})
		if f.Name == name && f.MinArity == arity {
			return f, true
		}
	}
	return gojqx.Function{}, false
}

// ZZTotal calls the registered function with symbolic input and arguments; the
// property is that the call returns (a value, an error value, or an iterator
// that can be drained) — any Go panic escaping it is a violation.
func ZZTotal(name string, arity int) { zzTotal(name, arity, -1) }

// ZZTotalOpts: the last argument is an option object.
func ZZTotalOpts(name string, arity int) { zzTotal(name, arity, -2) }

func zzTotal(name string, arity int, special int) {
	f, ok := ZZFunction(name, arity)
	vrt.Assert(ok, "registered function exists: "+name)
	if !ok {
		return
	}
	cMode := zzFull
	if arity >= 2 {
		cMode = zzSmall // the input of the multi-argument functions (bit operations) is not used
	}
	c := zzJQ("c", cMode)
	args := make([]any, arity)
	for i := range args {
		mode := zzArg
		if special == -2 && i == arity-1 {
			mode = zzOpts
		}
		if special == i {
			mode = zzCount
		}
		args[i] = zzJQ([]string{"a0", "a1", "a2"}[i], mode)
	}
	if f.FuncFn != nil {
		out := f.FuncFn(c, args)
		if jv, ok := out.(gojq.JQValue); ok {
			_ = jv.JQValueToGoJQ()
		}
	} else if f.IterFn != nil {
		it := f.IterFn(c, args)
		for k := 0; k < 3 && it != nil; k++ {
			if _, more := it.Next(); !more {
				break
			}
		}
	}
	vrt.Cover("returned", true)
}

func VerifTotalBnot()     { ZZTotal("bnot", 0) }
func VerifTotalBsl()      { zzTotal("bsl", 2, 1) }
func VerifTotalBsr()      { zzTotal("bsr", 2, 1) }
func VerifTotalBand()     { ZZTotal("band", 2) }
func VerifTotalBor()      { ZZTotal("bor", 2) }
func VerifTotalBxor()     { ZZTotal("bxor", 2) }
func VerifTotalToBits()   { ZZTotalOpts("_tobits", 1) }
func VerifTotalExtKeys()  { ZZTotal("_extkeys", 0) }
func VerifTotalExtType()  { ZZTotal("_exttype", 0) }
func VerifTotalToValue()  { ZZTotal("_tovalue", 1) }
func VerifTotalCanDisp()  { ZZTotal("_can_display", 0) }
