package interp

import (
	"bytes"
	"crypto/md5"
	"encoding/hex"

	vrt "github.com/wader/fq/internal/zzvrt"
	"github.com/wader/fq/pkg/bitio"
	"github.com/wader/fq/pkg/ranges"
)

// zzByteView returns the byte view of bits [start, start+n) of src with pad
// zero bits in front: bits followed by zero bits up to a byte boundary.
func zzByteView(src []byte, start, n, pad int64) []byte {
	total := pad + n
	out := make([]byte, bitio.BitsByteCount(total))
	for i := int64(0); i < int64(len(out))*8; i++ {
		var b uint64
		if i >= pad && i < total {
			b = bitio.ZZRefBit(src, start+(i-pad))
		}
		out[i/8] |= byte(b << (7 - uint(i%8)))
	}
	return out
}

const zzHexDigits = "0123456789abcdef"
const zzB64 = "ABCDEFGHIJKLMNOPQRSTUVWXYZabcdefghijklmnopqrstuvwxyz0123456789+/"

func zzRefHex(b []byte) string {
	out := make([]byte, 0, 2*len(b))
	for _, c := range b {
		out = append(out, zzHexDigits[c>>4], zzHexDigits[c&15])
	}
	return string(out)
}

func zzRefBase64(b []byte) string {
	var out []byte
	for i := 0; i < len(b); i += 3 {
		var v uint32
		n := 0
		for j := 0; j < 3; j++ {
			v <<= 8
			if i+j < len(b) {
				v |= uint32(b[i+j])
				n++
			}
		}
		out = append(out, zzB64[(v>>18)&63], zzB64[(v>>12)&63])
		if n > 1 {
			out = append(out, zzB64[(v>>6)&63])
		} else {
			out = append(out, '=')
		}
		if n > 2 {
			out = append(out, zzB64[v&63])
		} else {
			out = append(out, '=')
		}
	}
	return string(out)
}

// VerifBitsFormat: every textual rendering of raw bits selected by bits_format
// encodes exactly the bytes of the byte view of the binary's range.
func VerifBitsFormat() {
	const N = 4
	src := vrt.Bytes("buf", N)
	start := int64(vrt.IntRange("start", 0, 9))
	n := int64(vrt.IntRange("len", 0, 19))
	vrt.Assume(start+n <= 8*N)
	pad := int64(0)
	if vrt.Choice("padded", 2) == 1 {
		pad = (8 - n%8) % 8
	}
	b := Binary{br: bitio.NewBitReader(src, -1), r: ranges.Range{Start: start, Len: n}, unit: 8, pad: pad}
	view := zzByteView(src, start, n, pad)
	formats := []string{"string", "hex", "base64", "byte_array", "truncate", "md5"}
	f := formats[vrt.Choice("format", len(formats))]
	fn, err := bitsFormatFnFromOptions(Options{BitsFormat: f, Sizebase: 10})
	vrt.Assert(err == nil, "bits_format: known format")
	got := b.JQValueToGoJQEx(func() (*Options, error) { return &Options{BitsFormatFn: fn}, nil })
	switch f {
	case "string", "truncate":
		s, ok := got.(string)
		vrt.Assert(ok && s == string(view), "bits_format string/truncate: the bytes of the byte view")
	case "hex":
		s, ok := got.(string)
		vrt.Assert(ok && s == zzRefHex(view), "bits_format hex: two lower-case hex digits per byte")
	case "base64":
		s, ok := got.(string)
		vrt.Assert(ok && s == zzRefBase64(view), "bits_format base64: standard base64 with padding")
	case "byte_array":
		a, ok := got.([]any)
		vrt.Assert(ok || len(view) == 0, "bits_format byte_array: an array")
		vrt.Assert(len(a) == len(view), "bits_format byte_array: one number per byte")
		for i := range a {
			if i < len(view) {
				vrt.Assert(a[i] == int(view[i]), "bits_format byte_array: the byte values")
			}
		}
	case "md5":
		s, ok := got.(string)
		sum := md5.Sum(view)
		vrt.Assert(ok && s == hex.EncodeToString(sum[:]), "bits_format md5: digest of the byte view")
	}
	// raw output writes the same bytes
	var out bytes.Buffer
	vrt.Assert(b.Display(&out, &Options{RawOutput: true}) == nil, "raw display succeeds")
	vrt.Assert(bytes.Equal(out.Bytes(), view), "raw display writes exactly the byte view")
}

// VerifBitsFormatStateless: one formatter renders every raw field of a tree
// (tovalue, -V): rendering a second value after a first one gives the second
// value's own encoding - no state is carried over (fixed data: the question is
// about the formatter's state, not the bits).
func VerifBitsFormatStateless() {
	formats := []string{"string", "hex", "base64", "truncate", "md5"}
	f := formats[vrt.Choice("format", len(formats))]
	fn, err := bitsFormatFnFromOptions(Options{BitsFormat: f, Sizebase: 10})
	vrt.Assert(err == nil, "bits_format: known format")
	mk := func(s string) Binary {
		return Binary{br: bitio.NewBitReader([]byte(s), -1), r: ranges.Range{Start: 0, Len: int64(8 * len(s))}, unit: 8}
	}
	opts := func() (*Options, error) { return &Options{BitsFormatFn: fn}, nil }
	first, _ := mk("xyz").JQValueToGoJQEx(opts).(string)
	second, _ := mk("ab").JQValueToGoJQEx(opts).(string)
	third, _ := mk("xyz").JQValueToGoJQEx(opts).(string)
	sum := md5.Sum([]byte("ab"))
	want := map[string]string{"string": "ab", "truncate": "ab", "hex": "6162", "base64": "YWI=", "md5": hex.EncodeToString(sum[:])}[f]
	vrt.Assert(second == want, "bits_format: the second rendered value is its own encoding")
	vrt.Assert(first == third && first != "", "bits_format: rendering the same value again gives the same text")
}
