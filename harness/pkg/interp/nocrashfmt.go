package interp

import (
	"context"

	vrt "github.com/wader/fq/internal/zzvrt"
	"github.com/wader/fq/pkg/bitio"
	"github.com/wader/fq/pkg/decode"
)

// zzStubFormat stands in for the formats of a dependency group whose packages
// are not loaded: by a fresh choice per invocation it fails, consumes nothing,
// or consumes everything it was given as one raw field. Its out value is nil
// (parents that need a typed out value take their "no value" path).
var zzStubFormat = &decode.Format{
	Name: "zzstub",
	DecodeFn: func(d *decode.D) any {
		switch vrt.Choice("stub", 3) {
		case 0:
			d.Fatalf("stub format fails")
		case 1:
			d.FieldRawLen("stub", d.BitsLeft())
		}
		return nil
	},
}

// ZZNoCrashGroup: the registered format g (the real *decode.Format with its
// DefaultInArg, looked up in DefaultRegistry after the real dependency
// resolution) decodes every input of 0..n symbolic bytes, forced or not, to a
// tree or an error: no Go panic escapes decode.Decode. Dependency groups that
// resolved empty (their format packages are not loaded) get the stub format.
func ZZNoCrashGroup(g *decode.Group, n int) {
	rg := DefaultRegistry.MustGroup(g.Name)
	for _, f := range rg.Formats {
		for _, dep := range f.Dependencies {
			if len(dep.Out.Formats) == 0 {
				dep.Out.Name = "zzstub"
				dep.Out.Formats = []*decode.Format{zzStubFormat}
			}
		}
	}
	L := vrt.IntRange("len", 0, n)
	buf := vrt.Bytes("b", n)[:L]
	force := vrt.Choice("force", 2) == 1
	root, _, err := decode.Decode(context.Background(), bitio.NewBitReader(buf, -1), rg, decode.Options{IsRoot: true, FillGaps: true, Force: force})
	vrt.Assert(root != nil || err != nil, "decode returns a tree or an error")
}
