package bitio

import (
	"bytes"
	"io"

	vrt "github.com/wader/fq/internal/zzvrt"
)

// ---------------------------------------------------------------------------
// Reference contract for "a bit source with logical content S of L bits"
// (DESIGN §5 C01). Lenient exactly where fq's readers legitimately differ.

// bitsEq reports whether the first k bits of p equal S[off:off+k) (k concrete).
func bitsEq(p []byte, S []byte, off int64, k int64) bool {
	var diff uint64
	for i := int64(0); i < k; i++ {
		diff |= refBit(p, i) ^ refBit(S, off+i)
	}
	return diff == 0
}

// checkReadAt asserts the ReadBitsAt contract. k and off must be concrete or
// small-domain (they are case split here); n may be symbolic.
func checkReadAt(who string, S []byte, L int64, p []byte, n, off, k int64, err error) {
	k = vrt.Split(k)
	off = vrt.Split(off)
	avail := L - off
	if avail < 0 {
		avail = 0
	}
	vrt.Assert(k >= 0, who+": count is non-negative")
	vrt.Assert(k <= n || n < 0, who+": count does not exceed the request")
	vrt.Assert(k <= avail, who+": count does not exceed what the source holds")
	if k > avail || k < 0 {
		return
	}
	vrt.Assert(bitsEq(p, S, off, k), who+": bits equal the source bits, MSB first")
	if n < 0 {
		vrt.Assert(err != nil, who+": negative size is an error")
		return
	}
	if off < L {
		vrt.Assert(err == nil || err == io.EOF, who+": only nil or EOF inside the source")
		if err == io.EOF {
			vrt.Assert(off+k == L, who+": EOF only when the end was reached")
		}
		if n > 0 {
			vrt.Assert(k > 0 || err != nil, who+": progress (bits or an error)")
		}
	} else {
		vrt.Assert(k == 0, who+": nothing past the end")
		if n > 0 {
			vrt.Assert(err != nil, who+": error past the end")
		}
	}
}

// refSrc is a reference ReadAtSeeker over symbolic data whose ReadBitsAt does
// not fork on symbolic offsets/sizes (bits are selected with ite terms).
type refSrc struct {
	data  []byte // len(data)*8 >= bits
	bits  int64
	pos   int64
	short bool // every read may return any count in [1, possible]
}

func newRefSrc(name string, nBytes int, bits int64) *refSrc {
	return &refSrc{data: vrt.Bytes(name, nBytes), bits: bits}
}

func (s *refSrc) ReadBitsAt(p []byte, n int64, off int64) (int64, error) {
	if n < 0 {
		return 0, ErrNegativeNBits
	}
	if off < 0 || off >= s.bits {
		return 0, io.EOF
	}
	k := min(n, s.bits-off)
	if s.short && n > 0 {
		kk := vrt.Int64("short")
		vrt.Assume(1 <= kk)
		vrt.Assume(kk <= k)
		k = kk
	}
	nb := int64(len(p))
	for j := int64(0); j < nb; j++ {
		var b uint64
		for bit := int64(0); bit < 8; bit++ {
			i := 8*j + bit
			idx := min(off+i, s.bits-1)
			v := refBit(s.data, idx)
			b = b<<1 | vrt.IteU64(i < k, v, 0)
		}
		// bytes beyond the read are left alone
		p[j] = byte(vrt.IteU64(8*j < k, b, uint64(p[j])))
	}
	// like every reader fq builds: EOF accompanies data only when the read was cut short by the end
	if off+k == s.bits && k < n {
		return k, io.EOF
	}
	return k, nil
}

func (s *refSrc) ReadBits(p []byte, n int64) (int64, error) {
	k, err := s.ReadBitsAt(p, n, s.pos)
	s.pos += k
	return k, err
}

func (s *refSrc) SeekBits(off int64, whence int) (int64, error) {
	p := s.pos
	switch whence {
	case io.SeekStart:
		p = off
	case io.SeekCurrent:
		p += off
	case io.SeekEnd:
		p = s.bits + off
	}
	if p < 0 || p > s.bits {
		return s.pos, ErrOffset
	}
	s.pos = p
	return p, nil
}

// ---------------------------------------------------------------------------
// IOBitReadSeeker over the real bytes.Reader; two consecutive calls so the
// second sees stale bytes in the reused internal buffer.

func VerifIOBitReadSeekerReadAt() {
	const N = 5
	L := vrt.IntRange("len", 0, N)
	data := vrt.Bytes("data", N)[:L]
	r := NewIOBitReadSeeker(bytes.NewReader(data))
	p0 := make([]byte, N+1)
	_, _ = r.ReadBitsAt(p0, int64(8*L), 0) // fills r.buf with all of the data
	n := int64(vrt.IntRange("n", 0, 20))
	off := int64(vrt.IntRange("off", 0, 8*L+9))
	p := make([]byte, 4)
	k, err := r.ReadBitsAt(p, n, off)
	vrt.Cover("past-end-with-skip", off%8 != 0 && off+n > int64(8*L))
	checkReadAt("IOBitReadSeeker.ReadBitsAt", data, int64(8*L), p, n, off, k, err)
}

func VerifIOBitReadSeekerSeekRead() {
	const N = 4
	L := vrt.IntRange("len", 0, N)
	data := vrt.Bytes("data", N)[:L]
	r := NewIOBitReadSeeker(bytes.NewReader(data))
	whence := vrt.Choice("whence", 3)
	off := int64(vrt.IntRange("off", -8*N-2, 8*N+2))
	pos, err := r.SeekBits(off, whence)
	var t int64
	switch whence {
	case io.SeekStart, io.SeekCurrent:
		t = off
	case io.SeekEnd:
		t = int64(8*L) + off
	}
	if t >= 0 && t <= int64(8*L) {
		vrt.Assert(err == nil, "IOBitReadSeeker.SeekBits inside the source succeeds")
		vrt.Assert(pos == t, "IOBitReadSeeker.SeekBits returns the target")
	}
	if t < 0 {
		vrt.Assert(err != nil, "IOBitReadSeeker.SeekBits before start fails")
	}
	if err != nil {
		return
	}
	vrt.Assert(pos == t, "IOBitReadSeeker.SeekBits returns the target")
	n := int64(vrt.IntRange("n", 0, 12))
	p := make([]byte, 3)
	k, rerr := r.ReadBits(p, n)
	checkReadAt("IOBitReadSeeker.ReadBits after seek", data, int64(8*L), p, n, t, k, rerr)
	c, _ := r.SeekBits(0, io.SeekCurrent)
	vrt.Assert(c == t+k, "IOBitReadSeeker cursor advanced by the count")
}

// ---------------------------------------------------------------------------
// SectionReader: one step from an arbitrary valid state over the reference source.

func VerifSectionReaderStep() {
	const N = 4
	srcBits := vrt.Int64("srcBits")
	vrt.Assume(0 <= srcBits)
	vrt.Assume(srcBits <= 8*N)
	src := newRefSrc("d", N, srcBits)
	base, off, limit := vrt.Int64("base"), vrt.Int64("off"), vrt.Int64("limit")
	// representation invariant + constructor precondition (bitiox.Range: section inside source)
	vrt.Assume(0 <= base)
	vrt.Assume(base <= limit)
	vrt.Assume(limit <= srcBits)
	vrt.Assume(base <= off)
	vrt.Assume(off <= limit+16) // cursor may have been seeked past the end
	r := &SectionReader{r: src, bitBase: base, bitOff: off, bitLimit: limit}
	L := limit - base
	S := src.data
	cur := off - base
	op := vrt.Choice("op", 4)
	p := make([]byte, 3)
	switch op {
	case 0: // ReadBitsAt
		n, at := vrt.Int64("n"), vrt.Int64("at")
		vrt.Assume(-1 <= n)
		vrt.Assume(n <= 18)
		vrt.Assume(0 <= at)
		vrt.Assume(at <= 8*N+8)
		k, err := r.ReadBitsAt(p, n, at)
		checkSection("SectionReader.ReadBitsAt", S, base, L, p, n, at, k, err)
		vrt.Assert(r.bitOff == off, "SectionReader.ReadBitsAt leaves the cursor")
	case 1: // ReadBits
		n := vrt.Int64("n")
		vrt.Assume(-1 <= n)
		vrt.Assume(n <= 18)
		k, err := r.ReadBits(p, n)
		checkSection("SectionReader.ReadBits", S, base, L, p, n, cur, k, err)
		vrt.Assert(r.bitOff == off+k, "SectionReader.ReadBits advances the cursor by the count")
	case 2: // SeekBits
		whence := vrt.Choice("whence", 3)
		so := vrt.Int64("so")
		vrt.Assume(-100 <= so)
		vrt.Assume(so <= 100)
		pos, err := r.SeekBits(so, whence)
		var t int64
		switch whence {
		case io.SeekStart:
			t = so
		case io.SeekCurrent:
			t = cur + so
		case io.SeekEnd:
			t = L + so
		}
		if t >= 0 && t <= L {
			vrt.Assert(err == nil, "SectionReader.SeekBits inside succeeds")
		}
		if t < 0 {
			vrt.Assert(err != nil, "SectionReader.SeekBits before start fails")
		}
		if err == nil {
			vrt.Assert(pos == t, "SectionReader.SeekBits returns the target")
			vrt.Assert(r.bitOff-r.bitBase == t, "SectionReader.SeekBits sets the cursor")
		} else {
			vrt.Assert(r.bitOff == off, "SectionReader.SeekBits failure leaves the cursor")
		}
	case 3: // Clone
		c, err := r.CloneReaderAtSeeker()
		vrt.Assert(err == nil, "SectionReader clone succeeds")
		cs := c.(*SectionReader)
		vrt.Assert(cs.bitBase == base && cs.bitLimit == limit && cs.bitOff == base, "SectionReader clone: same window, cursor at start")
		vrt.Assert(r.bitOff == off, "SectionReader clone leaves the original cursor")
	}
	// invariant preserved
	vrt.Assert(r.bitBase == base && r.bitLimit == limit && r.bitBase <= r.bitOff, "SectionReader invariant")
}

// checkSection: content of the section is S[base:base+L); positions are section relative.
func checkSection(who string, S []byte, base, L int64, p []byte, n, at, k int64, err error) {
	k = vrt.Split(k)
	avail := vrt.IteI64(L-at > 0, L-at, 0)
	vrt.Assert(k >= 0, who+": count is non-negative")
	vrt.Assert(k <= n || n < 0, who+": count does not exceed the request")
	vrt.Assert(k <= avail, who+": count does not exceed what the section holds")
	var diff uint64
	for i := int64(0); i < k; i++ {
		idx := min(base+at+i, int64(len(S))*8-1)
		idx = max(idx, 0)
		diff |= refBit(p, i) ^ refBit(S, idx)
	}
	vrt.Assert(diff == 0, who+": bits equal the source bits of the section")
	if n < 0 {
		vrt.Assert(err != nil || k == 0, who+": negative size yields nothing")
		return
	}
	if at < L {
		vrt.Assert(err == nil || err == io.EOF, who+": only nil or EOF inside the section")
		if err == io.EOF {
			vrt.Assert(at+k == L, who+": EOF only when the end was reached")
		}
		if n > 0 {
			vrt.Assert(k > 0 || err != nil, who+": progress (bits or an error)")
		}
	} else {
		vrt.Assert(k == 0, who+": nothing past the end")
		if n > 0 {
			vrt.Assert(err != nil, who+": error past the end")
		}
	}
}

// ---------------------------------------------------------------------------
// MultiReader: one step from an arbitrary valid state over 1..3 reference sources
// (lengths symbolic, including 0 and non byte aligned).

func VerifMultiReaderStep() { verifMultiReaderStep(2) }

// VerifMultiReaderStep3: thorough tier, up to three sub readers.
func VerifMultiReaderStep3() { verifMultiReaderStep(3) }

func verifMultiReaderStep(maxReaders int) {
	const N = 2 // bytes per sub source
	nr := vrt.IntRange("readers", 1, maxReaders)
	var rs []ReadAtSeeker
	var srcs []*refSrc
	var ends []int64
	var total int64
	for i := 0; i < nr; i++ {
		b := vrt.Int64("bits")
		vrt.Assume(0 <= b)
		vrt.Assume(b <= 8*N)
		s := newRefSrc("d", N, b)
		srcs = append(srcs, s)
		rs = append(rs, s)
		total += b
		ends = append(ends, total)
	}
	pos := vrt.Int64("pos")
	vrt.Assume(0 <= pos)
	vrt.Assume(pos <= total)
	// the constructor must compute exactly these prefix sums
	m0, err0 := NewMultiReader(rs...)
	vrt.Assert(err0 == nil, "NewMultiReader succeeds")
	for i := range ends {
		vrt.Assert(m0.readerEnds[i] == ends[i], "NewMultiReader: readerEnds are the prefix sums of the sub lengths")
	}
	m := &MultiReader{pos: pos, readers: rs, readerEnds: ends}
	// logical content: concatenation; bit i of the whole = bit (i-prevEnd) of its sub source
	wholeBit := func(i int64) uint64 {
		var v uint64
		prev := int64(0)
		for j, s := range srcs {
			in := vrt.IteU64(i >= prev, 1, 0) & vrt.IteU64(i < ends[j], 1, 0)
			idx := max(min(i-prev, s.bits-1), 0)
			v |= in & refBit(s.data, idx)
			prev = ends[j]
		}
		return v
	}
	check := func(who string, p []byte, n, at, k int64, err error) {
		k = vrt.Split(k)
		if k > 0 {
			at = vrt.Split(at)
		}
		avail := vrt.IteI64(total-at > 0, total-at, 0)
		vrt.Assert(k >= 0, who+": count is non-negative")
		vrt.Assert(k <= n || n < 0, who+": count does not exceed the request")
		vrt.Assert(k <= avail, who+": count does not exceed what the source holds")
		var diff uint64
		for i := int64(0); i < k; i++ {
			diff |= refBit(p, i) ^ wholeBit(at+i)
		}
		vrt.Assert(diff == 0, who+": bits equal the concatenated source bits")
		if n < 0 {
			return
		}
		if at < total {
			vrt.Assert(err == nil || err == io.EOF, who+": only nil or EOF inside the source")
			if err == io.EOF {
				vrt.Assert(at+k == total, who+": EOF only when the end was reached")
			}
			if n > 0 {
				vrt.Assert(k > 0 || err != nil, who+": progress (bits or an error)")
			}
		} else {
			vrt.Assert(k == 0, who+": nothing past the end")
			if n > 0 {
				vrt.Assert(err != nil, who+": error past the end")
			}
		}
	}
	op := vrt.Choice("op", 3)
	p := make([]byte, 3)
	switch op {
	case 0:
		n, at := vrt.Int64("n"), vrt.Int64("at")
		vrt.Assume(0 <= n)
		vrt.Assume(n <= 12)
		vrt.Assume(0 <= at)
		vrt.Assume(at <= total+3)
		k, err := m.ReadBitsAt(p, n, at)
		check("MultiReader.ReadBitsAt", p, n, at, k, err)
		vrt.Assert(m.pos == pos, "MultiReader.ReadBitsAt leaves the cursor")
	case 1:
		n := vrt.Int64("n")
		vrt.Assume(0 <= n)
		vrt.Assume(n <= 12)
		k, err := m.ReadBits(p, n)
		check("MultiReader.ReadBits", p, n, pos, k, err)
		vrt.Assert(m.pos == pos+k, "MultiReader.ReadBits advances the cursor by the count")
	case 2:
		whence := vrt.Choice("whence", 3)
		so := vrt.Int64("so")
		vrt.Assume(-60 <= so)
		vrt.Assume(so <= 60)
		np, err := m.SeekBits(so, whence)
		var t int64
		switch whence {
		case io.SeekStart:
			t = so
		case io.SeekCurrent:
			t = pos + so
		case io.SeekEnd:
			t = total + so
		}
		if t >= 0 && t <= total {
			vrt.Assert(err == nil && np == t && m.pos == t, "MultiReader.SeekBits inside: succeeds, returns and sets the target")
		}
		if t < 0 {
			vrt.Assert(err != nil, "MultiReader.SeekBits before start fails")
		}
		if err != nil {
			vrt.Assert(m.pos == pos, "MultiReader.SeekBits failure leaves the cursor")
		} else {
			vrt.Assert(np == t && m.pos == t, "MultiReader.SeekBits returns and sets the target")
		}
	}
	vrt.Assert(0 <= m.pos && m.pos <= total, "MultiReader invariant: 0 <= pos <= end")
}

// LimitReader over the reference source (Reader only).
func VerifLimitReaderStep() {
	const N = 3
	srcBits := vrt.Int64("srcBits")
	vrt.Assume(0 <= srcBits)
	vrt.Assume(srcBits <= 8*N)
	src := newRefSrc("d", N, srcBits)
	sp := vrt.Int64("srcPos")
	vrt.Assume(0 <= sp)
	vrt.Assume(sp <= srcBits)
	src.pos = sp
	left := vrt.Int64("left")
	vrt.Assume(-2 <= left)
	vrt.Assume(left <= 8*N+4)
	r := NewLimitReader(src, left)
	n := vrt.Int64("n")
	vrt.Assume(0 <= n)
	vrt.Assume(n <= 18)
	p := make([]byte, 3)
	k, err := r.ReadBits(p, n)
	k = vrt.Split(k)
	// logical content: source bits [sp, sp+min(left, srcBits-sp))
	lim := vrt.IteI64(left > 0, left, 0)
	L := min(lim, srcBits-sp)
	vrt.Assert(k >= 0 && k <= n, "LimitReader.ReadBits: count within the request")
	vrt.Assert(k <= L, "LimitReader.ReadBits: count within the limit and the source")
	var diff uint64
	for i := int64(0); i < k; i++ {
		diff |= refBit(p, i) ^ refBit(src.data, min(sp+i, 8*N-1))
	}
	vrt.Assert(diff == 0, "LimitReader.ReadBits: bits equal the source bits")
	if L > 0 && n > 0 {
		vrt.Assert(k > 0 || err != nil, "LimitReader.ReadBits: progress")
		vrt.Assert(err == nil || err == io.EOF, "LimitReader.ReadBits: nil or EOF")
	}
	if L <= 0 && n > 0 {
		vrt.Assert(k == 0 && err != nil, "LimitReader.ReadBits: error at the end")
	}
	vrt.Assert(r.n == left-k, "LimitReader remaining budget decreases by the count")
}

// ---- exported for harnesses of other packages (overlay only) ----

func ZZRefBit(data []byte, i int64) uint64 { return refBit(data, i) }

type ZZRefSrc = refSrc

func ZZNewRefSrc(name string, nBytes int, bits int64) *refSrc { return newRefSrc(name, nBytes, bits) }
func (s *refSrc) ZZData() []byte                               { return s.data }
func (s *refSrc) ZZBits() int64                                { return s.bits }
func (s *refSrc) ZZSetPos(p int64)                             { s.pos = p }
func (s *refSrc) ZZPos() int64                                 { return s.pos }
func (s *refSrc) CloneReadAtSeeker() (ReadAtSeeker, error) {
	return &refSrc{data: s.data, bits: s.bits}, nil
}


// VerifReadFull: ReadAtFull/ReadFull over a reader that returns arbitrary short
// counts stitch exactly the requested bits, or fail iff fewer are available.
func VerifReadFull() { verifReadFull(11, 14, 6, 7) }

// VerifReadFullWide: thorough tier bounds.
func VerifReadFullWide() { verifReadFull(0, 16, 11, 16) }

func verifReadFull(minBits, maxBits, maxN, maxAt int) {
	const N = 2
	srcBits := int64(vrt.IntRange("srcBits", minBits, maxBits))
	src := newRefSrc("d", N, srcBits)
	src.short = true
	n := int64(vrt.IntRange("n", 0, maxN))
	at := int64(vrt.IntRange("at", 0, maxAt))
	p := make([]byte, 3)
	useCursor := vrt.Choice("cursor", 2) == 1
	var k int64
	var err error
	if useCursor {
		src.pos = at
		k, err = ReadFull(src, p, n)
	} else {
		k, err = ReadAtFull(src, p, n, at)
	}
	if at+n <= srcBits || n == 0 {
		vrt.Assert(err == nil && k == n, "ReadFull: succeeds when the bits are available")
		var diff uint64
		for i := int64(0); i < n; i++ {
			diff |= refBit(p, i) ^ refBit(src.data, at+i)
		}
		vrt.Assert(diff == 0, "ReadFull: stitched bits equal the source bits")
	} else {
		vrt.Assert(err != nil, "ReadFull: fails when fewer bits are available")
	}
}
