package bitio

import (
	"bytes"
	"io"

	vrt "github.com/wader/fq/internal/zzvrt"
)

// srcByte is byte i of the byte view of a bit source of L bits: the bits
// [8i, 8i+8) with zero bits after the end.
func srcByte(data []byte, L int64, i int64) byte {
	var b uint64
	for bit := int64(0); bit < 8; bit++ {
		p := 8*i + bit
		var v uint64
		if p < L {
			v = refBit(data, p)
		}
		b = b<<1 | v
	}
	return byte(b)
}

// VerifBufferWriteRead: Buffer is a FIFO of bits: after writes of a, b bits and a
// read of r bits the bits read are the first r written bits, Bits() returns the
// unread rest zero padded, Len is consistent.
func VerifBufferWriteRead() {
	const N = 3
	d1, d2 := vrt.Bytes("a", N), vrt.Bytes("b", N)
	n1 := int64(vrt.IntRange("n1", 0, 17))
	n2 := int64(vrt.IntRange("n2", 0, 9))
	var b Buffer
	w1, e1 := b.WriteBits(d1, n1)
	w2, e2 := b.WriteBits(d2, n2)
	vrt.Assert(e1 == nil && e2 == nil && w1 == n1 && w2 == n2, "Buffer.WriteBits accepts everything")
	vrt.Assert(b.Len() == n1+n2, "Buffer.Len after writes")
	all := func(i int64) uint64 {
		if i < n1 {
			return refBit(d1, i)
		}
		return refBit(d2, i-n1)
	}
	r := int64(vrt.IntRange("r", 0, 27))
	p := make([]byte, 4)
	k, err := b.ReadBits(p, r)
	tot := n1 + n2
	want := min(r, tot)
	if tot == 0 && r > 0 {
		vrt.Assert(k == 0 && err == io.EOF, "Buffer.ReadBits on empty buffer is EOF")
	} else {
		vrt.Assert(k == want && err == nil, "Buffer.ReadBits returns min(request, buffered)")
	}
	var diff uint64
	for i := int64(0); i < k; i++ {
		diff |= refBit(p, i) ^ all(i)
	}
	vrt.Assert(diff == 0, "Buffer.ReadBits returns the oldest bits")
	if k%8 != 0 {
		vrt.Assert(p[k/8]&(0xff>>uint(k%8)) == 0, "Buffer.ReadBits zero pads the last byte")
	}
	vrt.Assert(b.Len() == tot-k || (tot-k == 0 && b.Len() == 0), "Buffer.Len after read")
	rest, _ := b.Bits()
	left := tot - k
	vrt.Assert(int64(len(rest)) == BitsByteCount(left), "Buffer.Bits byte length")
	diff = 0
	for i := int64(0); i < left; i++ {
		diff |= refBit(rest, i) ^ all(k+i)
	}
	vrt.Assert(diff == 0, "Buffer.Bits returns the unread bits")
}

// VerifBufferBitsLen: Bits() reports the number of unread bits (F13 candidate).
func VerifBufferBitsLen() {
	d := vrt.Bytes("a", 2)
	n := int64(vrt.IntRange("n", 0, 16))
	r := int64(vrt.IntRange("r", 0, 16))
	var b Buffer
	b.WriteBits(d, n)
	p := make([]byte, 2)
	k, _ := b.ReadBits(p, r)
	_, l := b.Bits()
	vrt.Assert(l == n-k, "Buffer.Bits reports the unread bit count")
}

// VerifIOReader: the byte view of a bit source is its bits followed by zero
// padding up to a byte boundary, delivered once, in order, for any read sizes.
func VerifIOReader() {
	const N = 3
	data := vrt.Bytes("d", N)
	L := int64(vrt.IntRange("bits", 0, 8*N))
	r := NewIOReader(NewBitReader(data, L))
	total := BitsByteCount(L)
	var got []byte
	sizes := []int{vrt.IntRange("s1", 0, 3), vrt.IntRange("s2", 1, 2), 4, 4}
	var lastErr error
	for _, sz := range sizes {
		p := make([]byte, sz)
		n, err := r.Read(p)
		vrt.Assert(n >= 0 && n <= sz, "IOReader.Read count within the buffer")
		got = append(got, p[:n]...)
		lastErr = err
		if err != nil {
			vrt.Assert(err == io.EOF, "IOReader.Read only fails with EOF")
			break
		}
	}
	vrt.Assert(lastErr == io.EOF, "IOReader reaches EOF")
	vrt.Assert(int64(len(got)) == total, "IOReader delivers ceil(bits/8) bytes")
	var diff byte
	for i := range got {
		diff |= got[i] ^ srcByte(data, L, int64(i))
	}
	vrt.Assert(diff == 0, "IOReader bytes are the source bits, zero padded at the end")
}

// VerifIOReadSeeker: Read after any Seek returns the bytes of the byte view
// starting at the seek position, also when earlier reads left buffered bits.
func VerifIOReadSeeker() { verifIOReadSeeker(3, 3) }

// VerifIOReadSeekerLong: source longer than 64 bits so that the byte position
// can reach 8 (thorough tier).
func VerifIOReadSeekerLong() { verifIOReadSeeker(10, 16) }

func verifIOReadSeeker(N int, firstRead int) {
	data := vrt.Bytes("d", N)
	L := int64(vrt.IntRange("bits", 8*N-12, 8*N))
	rs := NewIOReadSeeker(NewBitReader(data, L))
	total := BitsByteCount(L)
	// first phase: Read or ReadByte calls (deflate reads through io.ByteReader);
	// leaves the reader at byte position n1 with possibly buffered bits
	var n1 int
	var diff byte
	if vrt.Choice("byteReader", 2) == 1 {
		reads := vrt.IntRange("byteReads", 0, 2)
		for i := 0; i < reads; i++ {
			b, err := rs.ReadByte()
			if err != nil && !(int64(n1) < total) {
				break
			}
			diff |= b ^ srcByte(data, L, int64(n1))
			n1++
		}
	} else {
		p1 := make([]byte, vrt.IntRange("s1", 0, firstRead))
		n1, _ = rs.Read(p1)
		for i := 0; i < n1; i++ {
			diff |= p1[i] ^ srcByte(data, L, int64(i))
		}
	}
	vrt.Assert(diff == 0, "IOReadSeeker first reads return the first bytes")
	if L%8 != 0 && int64(n1) == total {
		return // the zero padded last byte was delivered: positions behind a synthetic byte are outside the claim
	}
	whence := vrt.Choice("whence", 3)
	off := int64(vrt.IntRange("off", -2, int(total)+1))
	var t int64
	switch whence {
	case io.SeekStart:
		t = off
	case io.SeekCurrent:
		t = int64(n1) + off
	case io.SeekEnd:
		// the end of the byte view: bit length rounded down by SeekBits(…*8): the
		// implementation seeks in bits, so the byte target is (L + 8*off)/8
		t = (L + 8*off) / 8
		if L+8*off < 0 {
			t = -1
		}
	}
	pos, err := rs.Seek(off, whence)
	if t < 0 {
		vrt.Assert(err != nil, "IOReadSeeker.Seek before start fails")
		return
	}
	if err != nil {
		vrt.Assert(t*8 > L || (whence == io.SeekEnd && L+8*off > L), "IOReadSeeker.Seek inside the source succeeds")
		return
	}
	vrt.Assert(pos == t, "IOReadSeeker.Seek returns the byte target")
	if whence == io.SeekEnd && (L+8*off)%8 != 0 {
		return // cursor not on a byte boundary of the byte view: outside the claim
	}
	p2 := make([]byte, vrt.IntRange("s2", 1, 2))
	n2, err2 := rs.Read(p2)
	if t >= total {
		vrt.Assert(n2 == 0 && err2 != nil, "IOReadSeeker.Read at the end is EOF")
		return
	}
	vrt.Assert(n2 > 0 || err2 != nil, "IOReadSeeker.Read progress")
	diff = 0
	for i := 0; i < n2; i++ {
		diff |= p2[i] ^ srcByte(data, L, t+int64(i))
	}
	vrt.Cover("seek-to-bit-pos-equal-byte-pos", t*8 == int64(n1) && n1 > 0)
	vrt.Assert(diff == 0, "IOReadSeeker.Read after Seek returns the bytes at the target")
}

// VerifIOBitWriter: bytes written are exactly the bits written, zero padded by Flush.
func VerifIOBitWriter() {
	const N = 3
	d1, d2 := vrt.Bytes("a", N), vrt.Bytes("b", N)
	n1 := int64(vrt.IntRange("n1", 0, 8*N))
	n2 := int64(vrt.IntRange("n2", 0, 13))
	var out bytes.Buffer
	w := NewIOBitWriter(&out)
	k1, e1 := w.WriteBits(d1, n1)
	k2, e2 := w.WriteBits(d2, n2)
	vrt.Assert(e1 == nil && e2 == nil && k1 == n1 && k2 == n2, "IOBitWriter.WriteBits accepts everything")
	vrt.Assert(int64(out.Len()) == (n1+n2)/8, "IOBitWriter writes whole bytes as soon as they are complete")
	vrt.Assert(w.Flush() == nil, "IOBitWriter.Flush succeeds")
	tot := n1 + n2
	got := out.Bytes()
	vrt.Assert(int64(len(got)) == BitsByteCount(tot), "IOBitWriter output length is ceil(bits/8)")
	var diff uint64
	for i := int64(0); i < int64(len(got))*8; i++ {
		var want uint64
		switch {
		case i < n1:
			want = refBit(d1, i)
		case i < tot:
			want = refBit(d2, i-n1)
		}
		diff |= refBit(got, i) ^ want
	}
	vrt.Assert(diff == 0, "IOBitWriter output is the written bits then zero padding")
}
