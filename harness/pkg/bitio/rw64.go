package bitio

import (
	vrt "github.com/wader/fq/internal/zzvrt"
)

// VerifWrite64: after Write64(v, n, buf, first) every bit inside [first, first+n)
// is the corresponding bit of v (MSB first) and every other bit is unchanged.
func VerifWrite64() {
	const N = 12
	orig := vrt.Bytes("buf", N)
	buf := append([]byte(nil), orig...)
	v := vrt.Uint64("v")
	n := int64(vrt.IntRange("n", 0, 64))
	first := int64(vrt.IntRange("first", 0, 8*N))
	vrt.Assume(first+n <= 8*N)
	// precondition (all callers: copyBufBits, readFull, hexdump): v is an nBits-bit integer
	vrt.Assume(n == 64 || v>>uint64(n) == 0)
	Write64(v, n, buf, first)
	p := vrt.Int64("p")
	vrt.Assume(0 <= p)
	vrt.Assume(p < 8*N)
	got := refBit(buf, p)
	inside := vrt.IteU64(p >= first, 1, 0) & vrt.IteU64(p < first+n, 1, 0)
	fromV := (v >> (uint64(n-1-(p-first)) & 63)) & 1
	want := vrt.IteU64(inside == 1, fromV, refBit(orig, p))
	vrt.Cover("inside", inside == 1)
	vrt.Cover("outside", inside == 0)
	vrt.Assert(got == want, "Write64 bits")
}

// VerifWrite64Contract: nBits outside 0..64 panics (documented), for both functions.
func VerifRW64Contract() {
	buf := vrt.Bytes("buf", 4)
	n := vrt.Int64("n")
	vrt.Assume(n < 0 || n > 64)
	panicked := func(f func()) (p bool) {
		defer func() {
			if recover() != nil {
				p = true
			}
		}()
		f()
		return false
	}
	vrt.Assert(panicked(func() { Read64(buf, 0, n) }), "Read64 rejects nBits outside 0..64")
	vrt.Assert(panicked(func() { Write64(0, n, buf, 0) }), "Write64 rejects nBits outside 0..64")
}

// VerifCopyBufBits: dst[dstStart:dstStart+n) = src[srcStart:srcStart+n); with
// zero=true the rest of the last touched byte is zero; all other bits unchanged.
func VerifCopyBufBits() { verifCopyBufBits(11, 8, 66) }

// VerifCopyBufBitsWide: thorough-tier bounds (two 64-bit chunks plus a tail).
func VerifCopyBufBitsWide() { verifCopyBufBits(20, 15, 131) }

func verifCopyBufBits(N int, maxStart int, maxN int) {
	src := vrt.Bytes("src", N)
	orig := vrt.Bytes("dst", N)
	dst := append([]byte(nil), orig...)
	srcStart := int64(vrt.IntRange("srcStart", 0, maxStart))
	dstStart := int64(vrt.IntRange("dstStart", 0, maxStart))
	n := int64(vrt.IntRange("n", 0, maxN))
	zero := vrt.Choice("zero", 2) == 1
	copyBufBits(dst, dstStart, src, srcStart, n, zero)
	p := vrt.Int64("p")
	vrt.Assume(0 <= p)
	vrt.Assume(p < int64(8*N))
	got := refBit(dst, p)
	e := dstStart + n
	padEnd := e
	if zero && e%8 != 0 {
		padEnd = e + (8 - e%8)
	}
	inCopy := vrt.IteU64(p >= dstStart, 1, 0) & vrt.IteU64(p < e, 1, 0)
	inPad := vrt.IteU64(p >= e, 1, 0) & vrt.IteU64(p < padEnd, 1, 0)
	srcIdx := max(min(srcStart+(p-dstStart), int64(8*N-1)), 0)
	want := vrt.IteU64(inCopy == 1, refBit(src, srcIdx), vrt.IteU64(inPad == 1, 0, refBit(orig, p)))
	vrt.Cover("pad-bit", inPad == 1)
	vrt.Assert(got == want, "copyBufBits bits")
}
