package bitio

import (
	vrt "github.com/wader/fq/internal/zzvrt"
)

// refBit is the specification of "bit i of data, most significant bit first".
func refBit(data []byte, i int64) uint64 {
	return uint64(data[i>>3]>>(7-uint(i&7))) & 1
}

// VerifRead64: Read64(buf, first, n) is the big-endian value of bits
// [first, first+n) for every buffer content, every alignment and every n in 0..64.
func VerifRead64() {
	const N = 16
	buf := vrt.Bytes("buf", N)
	first := vrt.Int64("first")
	n := vrt.Int64("n")
	vrt.Assume(0 <= n)
	vrt.Assume(n <= 64)
	vrt.Assume(0 <= first)
	vrt.Assume(first <= 8*N)
	vrt.Assume(first+n <= 8*N)
	// exploration directives: alignment and length are case split, the byte
	// position and the data stay symbolic
	n = vrt.Split(n)
	al := vrt.Split(first & 7)
	_ = al
	got := Read64(buf, first, n)
	var want uint64
	for i := int64(0); i < n; i++ {
		want = want<<1 | refBit(buf, first+i)
	}
	vrt.Cover("unaligned", first&7 != 0)
	vrt.Cover("n=64", n == 64)
	vrt.Assert(got == want, "Read64 value")
}
