package crypto

import (
	"github.com/wader/fq/pkg/interp"
)

func VerifTotalToHash() { interp.ZZTotalOpts("_to_hash", 1) }
