package toml

import (
	"github.com/wader/fq/pkg/interp"
)

func VerifTotalToToml() { interp.ZZTotalOpts("_to_toml", 1) }
