package yaml

import (
	"github.com/wader/fq/pkg/interp"
)

func VerifTotalToYaml() { interp.ZZTotalOpts("_to_yaml", 1) }
