package bencode

import (
	vrt "github.com/wader/fq/internal/zzvrt"
	"github.com/wader/fq/pkg/bitio"
	"github.com/wader/fq/pkg/decode"
	"github.com/wader/fq/pkg/scalar"
)

func zzField(v *decode.Value, name string) *decode.Value {
	if v == nil {
		return nil
	}
	c, ok := v.V.(*decode.Compound)
	if !ok || c.ByName == nil {
		return nil
	}
	return c.ByName[name]
}

func zzDecode(in []byte) (*decode.Value, error) {
	root, _, err := decode.Decode(nil, bitio.NewBitReader(in, -1), decode.FormatFn(decodeBencode), decode.Options{IsRoot: true, FillGaps: true})
	return root, err
}

// zzDigits: k decimal digits and their value (Horner): the last three are
// symbolic, the leading ones are the leading digits of the largest int64 (a
// fully symbolic 19 digit number leaves the solver undecided: chains of 64-bit
// multiplications by ten).
func zzDigits(name string, k int) ([]byte, uint64) {
	const lead = "9223372036854775807"
	nsym := min(k, 3)
	ds := append([]byte(lead[:k-nsym]), vrt.Bytes(name, nsym)...)
	var v uint64
	for i, c := range ds {
		if i >= k-nsym {
			vrt.Assume(c >= '0')
			vrt.Assume(c <= '9')
		}
		v = v*10 + uint64(c-'0')
	}
	return ds, v
}

// VerifBencodeInt: "i<sign><digits>e" for digit strings of the listed
// lengths (last three digits symbolic) (up to 19 digits, the full int64 range including the minimum) decodes
// to exactly that integer, spanning exactly its text; a following value is
// untouched (gap).
func zzBencodeInt(ks []int) {
	k := ks[vrt.Choice("ndigits", len(ks))]
	neg := vrt.Choice("neg", 2) == 1
	ds, v := zzDigits("d", k)
	limit := uint64(1) << 63
	if !neg {
		limit--
	}
	if k == 19 {
		// 19 digit numbers can exceed int64 (they never wrap uint64): only the representable ones are in the claim
		vrt.Assume(v <= limit)
	}
	in := []byte{'i'}
	if neg {
		in = append(in, '-')
	}
	in = append(in, ds...)
	in = append(in, 'e', 'X') // one trailing byte that is not part of the value
	root, err := zzDecode(in)
	vrt.Assert(root != nil && err == nil, "bencode: a well-formed integer decodes without error")
	val := zzField(root, "value")
	vrt.Assert(val != nil, "bencode: integer has a value field")
	if val == nil {
		return
	}
	s, ok := val.V.(*scalar.Sint)
	want := int64(v)
	if neg {
		want = -want
	}
	vrt.Assert(ok && s.Actual == want, "bencode: integer value is the number its decimal text denotes")
	n := int64(k)
	if neg {
		n++
	}
	vrt.Assert(val.Range.Start == 8 && val.Range.Len == n*8, "bencode: integer value spans exactly its text")
	end := zzField(root, "end")
	vrt.Assert(end != nil && end.Range.Start == (1+n)*8 && end.Range.Len == 8, "bencode: end marker follows the text")
}

func VerifBencodeInt()     { zzBencodeInt([]int{1, 2, 18, 19}) }
func VerifBencodeIntLong() { zzBencodeInt([]int{1, 2, 3, 5, 9, 10, 15, 17, 18, 19}) }

// VerifBencodeString: "<len>:<bytes>" with a one-digit length: the value is
// exactly the declared bytes (whatever they are), the rest is untouched.
func VerifBencodeString() {
	l := vrt.Choice("len", 4)
	payload := vrt.Bytes("p", 4)
	in := append([]byte{byte('0' + l), ':'}, payload...)
	root, err := zzDecode(in)
	vrt.Assert(root != nil && err == nil, "bencode: a well-formed string decodes without error")
	lf := zzField(root, "length")
	ls, ok := lf.V.(*scalar.Sint)
	vrt.Assert(ok && ls.Actual == int64(l), "bencode: string length is the number before the colon")
	val := zzField(root, "value")
	vrt.Assert(val != nil && val.Range.Start == 16 && val.Range.Len == int64(l)*8, "bencode: string value is exactly the declared bytes")
}

// VerifBencodeList: a list / dictionary of small integers: element order and values.
func VerifBencodeList() {
	a, va := zzDigits("a", 1)
	b, vb := zzDigits("b", 2)
	dict := vrt.Choice("dict", 2) == 1
	var in []byte
	if dict {
		in = append(in, 'd', '1', ':', 'k')
	} else {
		in = append(in, 'l', 'i')
		in = append(in, a...)
		in = append(in, 'e')
	}
	in = append(in, 'i', '-')
	in = append(in, b...)
	in = append(in, 'e', 'e')
	root, err := zzDecode(in)
	vrt.Assert(root != nil && err == nil, "bencode: a well-formed container decodes without error")
	if dict {
		pairs := zzField(root, "pairs")
		pc, ok := pairs.V.(*decode.Compound)
		vrt.Assert(ok && len(pc.Children) == 1, "bencode: dictionary has its one pair")
		v := zzField(zzField(pc.Children[0], "value"), "value")
		s, ok := v.V.(*scalar.Sint)
		vrt.Assert(ok && s.Actual == -int64(vb), "bencode: dictionary value")
		return
	}
	vals := zzField(root, "values")
	vc, ok := vals.V.(*decode.Compound)
	vrt.Assert(ok && len(vc.Children) == 2, "bencode: list has its two elements in order")
	s0, ok0 := zzField(vc.Children[0], "value").V.(*scalar.Sint)
	s1, ok1 := zzField(vc.Children[1], "value").V.(*scalar.Sint)
	vrt.Assert(ok0 && s0.Actual == int64(va), "bencode: first list element")
	vrt.Assert(ok1 && s1.Actual == -int64(vb), "bencode: second list element")
}
