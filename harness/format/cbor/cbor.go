package cbor

import (
	"math"
	"math/big"

	vrt "github.com/wader/fq/internal/zzvrt"
	"github.com/wader/fq/pkg/bitio"
	"github.com/wader/fq/pkg/decode"
	"github.com/wader/fq/pkg/scalar"
)

func zzField(v *decode.Value, name string) *decode.Value {
	c, ok := v.V.(*decode.Compound)
	if !ok || c.ByName == nil {
		return nil
	}
	return c.ByName[name]
}

func zzBE(b []byte, at int64, n int64) (uint64, bool) {
	if at+n > int64(len(b)) {
		return 0, false
	}
	var v uint64
	for i := int64(0); i < n; i++ {
		v = v<<8 | uint64(b[at+i])
	}
	return v, true
}

// zzHead parses the initial byte and argument (RFC 8949 §3).
func zzHead(b []byte, at int64) (major, info uint64, arg uint64, size int64, ok bool) {
	h, ok := zzBE(b, at, 1)
	if !ok {
		return 0, 0, 0, 0, false
	}
	major, info = h>>5, h&31
	size = 1
	arg = info
	var n int64
	switch info {
	case 24:
		n = 1
	case 25:
		n = 2
	case 26:
		n = 4
	case 27:
		n = 8
	}
	if n > 0 {
		arg, ok = zzBE(b, at+1, n)
		if !ok {
			return 0, 0, 0, 0, false
		}
		size += n
	}
	return major, info, arg, size, true
}

func zzDecode(buf []byte) (*decode.Value, error) {
	root, _, err := decode.Decode(nil, bitio.NewBitReader(buf, -1), decode.FormatFn(decodeCBOR), decode.Options{IsRoot: true, FillGaps: true})
	return root, err
}

// VerifCborScalar: integers of every count form, simple values, floats of the
// three sizes, definite byte and text strings: value and payload range as the
// RFC defines; truncated input is an error; trailing bytes are a gap.
func VerifCborScalar() {
	const N = 10
	L := vrt.IntRange("len", 0, N)
	buf := vrt.Bytes("b", N)[:L]
	if L >= 1 {
		m7, i7 := buf[0]>>5, buf[0]&31
		if m7 == 7 && !(i7 >= 20 && i7 <= 22 || i7 >= 25 && i7 <= 27) {
			return // unassigned/extended simple values and the break code: not decoded by fq (documented TODO), outside the claim
		}
	}
	major, info, arg, size, ok := zzHead(buf, 0)
	if ok && major >= 4 && major <= 6 {
		return // containers and tags: other harnesses
	}
	if ok && info >= 28 && info <= 30 && major != 7 {
		ok = false // reserved
	}
	if ok && info == 31 && major != 7 {
		return // indefinite lengths: other harness
	}
	if ok && major == 7 && !(info >= 20 && info <= 22 || info >= 25 && info <= 27) {
		return // unassigned/extended simple values and the break code: not decoded by fq (documented TODO), outside the claim
	}
	var payStart, payLen int64
	if ok && (major == 2 || major == 3) {
		// declared length must fit: a length larger than the input is a truncated item
		if arg > uint64(int64(len(buf))-size) {
			ok = false
		} else {
			if arg > 3 {
				vrt.Stop("payload longer than the bound")
			}
			arg = vrt.SplitU(arg)
			payStart, payLen = size, int64(arg)
			size += int64(arg)
		}
	}
	if ok && major == 7 {
		switch info {
		case 25:
			size = 3
		case 26:
			size = 5
		case 27:
			size = 9
		case 24:
			size = 2
		}
		if size > int64(len(buf)) {
			ok = false
		}
	}
	root, err := zzDecode(buf)
	vrt.Cover("declared length beyond the input", major == 2 && arg > 1<<32)
	if !ok {
		vrt.Assert(err != nil, "cbor: truncated or reserved encoding is reported as an error")
		return
	}
	vrt.Assert(err == nil && root != nil, "cbor: a complete item decodes")
	if err != nil || root == nil {
		return
	}
	val := zzField(root, "value")
	switch major {
	case 0:
		u, isU := val.V.(*scalar.Uint)
		vrt.Assert(isU && u.Actual == arg, "cbor: unsigned integer = argument")
	case 1:
		bi, isB := val.V.(*scalar.BigInt)
		want := new(big.Int).SetUint64(arg)
		want.Neg(want).Sub(want, big.NewInt(1))
		vrt.Assert(isB && bi.Actual.Cmp(want) == 0, "cbor: negative integer = -1 - argument")
	case 2, 3:
		vrt.Assert(val != nil && val.Range.Start == payStart*8 && val.Range.Len == payLen*8, "cbor: string payload is exactly the declared bytes")
	case 7:
		switch info {
		case 20, 21:
			bv, isB := val.V.(*scalar.Bool)
			vrt.Assert(isB && bv.Actual == (info == 21), "cbor: false/true")
		case 22:
			a, isA := val.V.(*scalar.Any)
			vrt.Assert(isA && a.Actual == nil, "cbor: null")
		case 25:
			f, isF := val.V.(*scalar.Flt)
			h, _ := zzBE(buf, 1, 2)
			want := float64(vrt.F16ToF32Ref(uint16(h)))
			vrt.Assert(isF && (f.Actual != f.Actual && want != want || math.Float64bits(f.Actual) == math.Float64bits(want)), "cbor: half precision float")
		case 26:
			f, isF := val.V.(*scalar.Flt)
			w, _ := zzBE(buf, 1, 4)
			want := float64(math.Float32frombits(uint32(w)))
			vrt.Assert(isF && (f.Actual != f.Actual && want != want || math.Float64bits(f.Actual) == math.Float64bits(want)), "cbor: single precision float")
		case 27:
			f, isF := val.V.(*scalar.Flt)
			w, _ := zzBE(buf, 1, 8)
			vrt.Assert(isF && math.Float64bits(f.Actual) == w, "cbor: double precision float")
		}
	}
	if size < int64(L) {
		var gap *decode.Value
		for _, c := range root.V.(*decode.Compound).Children {
			if s, ok := c.V.(scalar.Scalarable); ok && s.ScalarFlags().IsGap() {
				gap = c
			}
		}
		vrt.Assert(gap != nil && gap.Range.Start == size*8 && gap.Range.Len == (int64(L)-size)*8, "cbor: trailing bytes are reported as a gap")
	}
}

// VerifCborArray: definite arrays (count 0..2) and indefinite arrays (0..2
// elements, break marker) of one-byte integers.
func VerifCborArray() {
	const N = 4
	L := vrt.IntRange("len", 1, N)
	buf := vrt.Bytes("b", N)[:L]
	major, info, arg, size, ok := zzHead(buf, 0)
	vrt.Assume(ok)
	vrt.Assume(major == 4)
	vrt.Assume(info <= 23 || info == 31)
	indefinite := info == 31
	// reference: elements are one-byte unsigned integers (initial byte < 24)
	var elems []uint64
	complete := true
	p := size
	for i := 0; ; i++ {
		if !indefinite && uint64(i) >= arg {
			break
		}
		if p >= int64(L) {
			complete = false
			break
		}
		if indefinite && buf[p] == 0xff {
			p++
			break
		}
		vrt.Assume(buf[p] < 24)
		elems = append(elems, uint64(buf[p]))
		p++
		if len(elems) > 3 {
			vrt.Stop("more elements than the bound")
		}
	}
	root, err := zzDecode(buf)
	if !complete {
		vrt.Assert(err != nil, "cbor: truncated array is reported as an error")
		return
	}
	vrt.Assert(err == nil && root != nil, "cbor: a complete array decodes")
	if err != nil || root == nil {
		return
	}
	ef := zzField(root, "elements")
	ec, isC := ef.V.(*decode.Compound)
	vrt.Assert(isC && len(ec.Children) == len(elems), "cbor: element count")
	if !isC || len(ec.Children) != len(elems) {
		return
	}
	for i, ch := range ec.Children {
		u, isU := zzField(ch, "value").V.(*scalar.Uint)
		vrt.Assert(isU && u.Actual == elems[i], "cbor: element value")
	}
}

// VerifCborIndefiniteLong: an indefinite-length array keeps all its elements,
// also beyond 31 of them (the short count of the indefinite marker is 31).
func VerifCborIndefiniteLong() {
	n := vrt.IntRange("elements", 29, 34)
	buf := []byte{0x9f}
	for i := 0; i < n; i++ {
		buf = append(buf, byte(i%20))
	}
	buf = append(buf, 0xff)
	last := vrt.Uint8("last")
	vrt.Assume(last < 24)
	buf[n] = last
	root, err := zzDecode(buf)
	vrt.Assert(err == nil && root != nil, "cbor: indefinite array decodes")
	if err != nil || root == nil {
		return
	}
	ec, isC := zzField(root, "elements").V.(*decode.Compound)
	vrt.Assert(isC && len(ec.Children) == n, "cbor: an indefinite array has as many elements as precede its break marker")
	if isC && len(ec.Children) == n {
		u, isU := zzField(ec.Children[n-1], "value").V.(*scalar.Uint)
		vrt.Assert(isU && u.Actual == uint64(last), "cbor: last element value")
	}
}

// zzNoCrash: any input of up to n bytes, forced or not: tree or error, no panic.
func zzNoCrash(n int) {
	L := vrt.IntRange("len", 0, n)
	buf := vrt.Bytes("b", n)[:L]
	force := vrt.Choice("force", 2) == 1
	root, _, err := decode.Decode(nil, bitio.NewBitReader(buf, -1), decode.FormatFn(decodeCBOR), decode.Options{IsRoot: true, FillGaps: true, Force: force})
	vrt.Assert(root != nil || err != nil, "decode returns a tree or an error")
}

func VerifNoCrash()     { zzNoCrash(3) }
func VerifNoCrashLong() { zzNoCrash(4) }
