package asn1

import (
	vrt "github.com/wader/fq/internal/zzvrt"
	"github.com/wader/fq/pkg/bitio"
	"github.com/wader/fq/pkg/decode"
)

// zzNoCrash: for every input of up to n bytes, forced or not, the decoder
// returns a tree or an error: no Go panic escapes decode.Decode (runtime faults
// pass through the real recoverfn.Run, which re-panics the non-recoverable ones).
func zzNoCrash(n int, fn func(d *decode.D) any) {
	L := vrt.IntRange("len", 0, n)
	buf := vrt.Bytes("b", n)[:L]
	force := vrt.Choice("force", 2) == 1
	root, _, err := decode.Decode(nil, bitio.NewBitReader(buf, -1), decode.FormatFn(fn), decode.Options{IsRoot: true, FillGaps: true, Force: force})
	vrt.Assert(root != nil || err != nil, "decode returns a tree or an error")
}

func VerifNoCrash() { zzNoCrash(4, decodeASN1BER) }

