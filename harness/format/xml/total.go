package xml

import (
	"github.com/wader/fq/pkg/interp"
)

func VerifTotalToXml() { interp.ZZTotalOpts("to_xml", 1) }
func VerifTotalToXmlentities() { interp.ZZTotal("to_xmlentities", 0) }
func VerifTotalFromXmlentities() { interp.ZZTotal("from_xmlentities", 0) }
