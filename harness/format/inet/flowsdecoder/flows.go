package flowsdecoder

import (
	"bytes"

	"github.com/gopacket/gopacket"
	"github.com/gopacket/gopacket/layers"
	"github.com/gopacket/gopacket/reassembly"
	vrt "github.com/wader/fq/internal/zzvrt"
)

// zzSG is a ScatterGather delivering arbitrary (symbolic) batch information.
type zzSG struct {
	dir        reassembly.TCPFlowDirection
	start, end bool
	skip       int
	data       []byte
}

func (s *zzSG) Lengths() (int, int)                { return len(s.data), 0 }
func (s *zzSG) Fetch(l int) []byte                 { return s.data[:l] }
func (s *zzSG) KeepFrom(offset int)                {}
func (s *zzSG) CaptureInfo(offset int) gopacket.CaptureInfo { return gopacket.CaptureInfo{} }
func (s *zzSG) Info() (reassembly.TCPFlowDirection, bool, bool, int) {
	return s.dir, s.start, s.end, s.skip
}
func (s *zzSG) Stats() reassembly.TCPAssemblyStats { return reassembly.TCPAssemblyStats{} }

// VerifReassembledSG: one reassembly callback from an arbitrary connection
// state: the bytes go to the direction they were sent in and the other
// direction is untouched; a batch behind missing bytes only adds to the skipped
// count; otherwise exactly the delivered bytes are appended; start/end flags
// are monotone.
func VerifReassembledSG() {
	pre := func(name string) (*TCPDirection, []byte) {
		n := vrt.IntRange(name+".buffered", 0, 2)
		b := vrt.Bytes(name+".buf", 2)[:n]
		return &TCPDirection{HasStart: vrt.Bool(name + ".hasStart"), HasEnd: vrt.Bool(name + ".hasEnd"),
			Buffer: bytes.NewBuffer(append([]byte(nil), b...)), SkippedBytes: vrt.Uint64(name + ".skipped")}, b
	}
	c, cb := pre("client")
	s, sb := pre("server")
	conn := &TCPConnection{Client: c, Server: s}
	toServer := vrt.Choice("dir", 2) == 0
	dir := reassembly.TCPDirClientToServer
	if !toServer {
		dir = reassembly.TCPDirServerToClient
	}
	n := vrt.IntRange("len", 0, 3)
	data := vrt.Bytes("data", 3)[:n]
	skip := vrt.Int("skip")
	vrt.Assume(skip >= -1)
	vrt.Assume(skip <= 1<<40)
	sg := &zzSG{dir: dir, start: vrt.Bool("start"), end: vrt.Bool("end"), skip: skip, data: data}
	c0, s0 := *c, *s
	conn.ReassembledSG(sg, nil)
	d, d0, db, o, o0, ob := c, c0, cb, s, s0, sb
	if !toServer {
		d, d0, db, o, o0, ob = s, s0, sb, c, c0, cb
	}
	vrt.Assert(o.HasStart == o0.HasStart && o.HasEnd == o0.HasEnd && o.SkippedBytes == o0.SkippedBytes && bytes.Equal(o.Buffer.Bytes(), ob), "reassembly: the other direction is untouched")
	vrt.Assert((!d0.HasStart || d.HasStart) && (!d0.HasEnd || d.HasEnd), "reassembly: start and end flags are monotone")
	if skip > 0 {
		vrt.Assert(d.SkippedBytes == d0.SkippedBytes+uint64(skip), "reassembly: a batch behind a hole adds exactly the missing byte count")
		vrt.Assert(bytes.Equal(d.Buffer.Bytes(), db), "reassembly: nothing is appended from a batch behind a hole")
		vrt.Assert(d.HasStart == d0.HasStart && d.HasEnd == d0.HasEnd, "reassembly: flags unchanged by a skipped batch")
	} else {
		vrt.Assert(d.SkippedBytes == d0.SkippedBytes, "reassembly: skipped count unchanged without a hole")
		vrt.Assert(bytes.Equal(d.Buffer.Bytes(), append(append([]byte(nil), db...), data...)), "reassembly: exactly the delivered bytes are appended, in order")
		vrt.Assert(d.HasStart == (d0.HasStart || sg.start) && d.HasEnd == (d0.HasEnd || sg.end), "reassembly: flags record start and end of the stream")
	}
}

// VerifRAWIPFrame: a raw IP frame of any length (also empty) is dispatched on
// its version nibble or rejected with an error, never a runtime fault.
func VerifRAWIPFrame() {
	n := vrt.IntRange("len", 0, 2)
	bs := vrt.Bytes("frame", 2)[:n]
	if n > 0 {
		v := bs[0] >> 4
		vrt.Assume(v != 4 && v != 6) // the version 4/6 branches enter gopacket's parsers (third party, outside the claim)
	}
	fd := &Decoder{}
	err := fd.RAWIPFrame(bs)
	vrt.Assert(err != nil, "raw IP frame: no valid version nibble means an error")
}

// VerifNewPorts: endpoints of a new connection: ports are the big-endian value
// of a 2 byte raw transport endpoint, zero otherwise; addresses are copies.
func VerifNewPorts() {
	sl, dl := vrt.IntRange("srclen", 0, 3), vrt.IntRange("dstlen", 0, 3)
	src, dst := vrt.Bytes("src", 3)[:sl], vrt.Bytes("dst", 3)[:dl]
	ip1, ip2 := vrt.Bytes("ip1", 4), vrt.Bytes("ip2", 4)
	netFlow := gopacket.NewFlow(layers.EndpointIPv4, ip1, ip2)
	tr := gopacket.NewFlow(layers.EndpointTCPPort, src, dst)
	fd := &Decoder{}
	st := fd.New(netFlow, tr, nil, nil)
	conn, ok := st.(*TCPConnection)
	vrt.Assert(ok && len(fd.TCPConnections) == 1 && fd.TCPConnections[0] == conn, "new connection is recorded")
	wantC, wantS := 0, 0
	if sl == 2 {
		wantC = int(src[0])<<8 | int(src[1])
	}
	if dl == 2 {
		wantS = int(dst[0])<<8 | int(dst[1])
	}
	vrt.Assert(conn.Client.Endpoint.Port == wantC && conn.Server.Endpoint.Port == wantS, "ports are attributed to the right endpoint, big endian")
	vrt.Assert(bytes.Equal(conn.Client.Endpoint.IP, ip1) && bytes.Equal(conn.Server.Endpoint.IP, ip2), "addresses are attributed to the right endpoint")
	vrt.Assert(conn.Client.Buffer.Len() == 0 && conn.Server.Buffer.Len() == 0 && conn.Client.SkippedBytes == 0, "streams start empty")
}
