package json

import (
	"github.com/wader/fq/pkg/interp"
)

func VerifTotalToJson() { interp.ZZTotalOpts("_to_json", 1) }
func VerifTotalToJsonl() { interp.ZZTotal("to_jsonl", 0) }
