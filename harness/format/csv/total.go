package csv

import (
	"github.com/wader/fq/pkg/interp"
)

func VerifTotalToCsv() { interp.ZZTotalOpts("_to_csv", 1) }
