package text

import (
	"github.com/wader/fq/pkg/interp"
)

func VerifTotalToHex()        { interp.ZZTotal("to_hex", 0) }
func VerifTotalFromHex()      { interp.ZZTotal("from_hex", 0) }
func VerifTotalToBase64()     { interp.ZZTotalOpts("_to_base64", 1) }
func VerifTotalFromBase64()   { interp.ZZTotalOpts("_from_base64", 1) }
func VerifTotalToURLEncode()  { interp.ZZTotal("to_urlencode", 0) }
func VerifTotalFromURLEncode() { interp.ZZTotal("from_urlencode", 0) }
func VerifTotalToURLPath()    { interp.ZZTotal("to_urlpath", 0) }
func VerifTotalFromURLPath()  { interp.ZZTotal("from_urlpath", 0) }
func VerifTotalToURLQuery()   { interp.ZZTotal("to_urlquery", 0) }
func VerifTotalFromURLQuery() { interp.ZZTotal("from_urlquery", 0) }
func VerifTotalToURL()        { interp.ZZTotal("to_url", 0) }
func VerifTotalFromURL()      { interp.ZZTotal("from_url", 0) }
func VerifTotalToStrEnc()     { interp.ZZTotalOpts("_to_strencoding", 1) }
func VerifTotalFromStrEnc()   { interp.ZZTotalOpts("_from_strencoding", 1) }
