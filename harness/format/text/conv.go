package text

import (
	vrt "github.com/wader/fq/internal/zzvrt"
	"github.com/wader/fq/internal/gojqx"
	"github.com/wader/fq/pkg/bitio"
	"github.com/wader/fq/pkg/interp"
)

// zzFn finds a Go function registered with the interpreter by name and returns
// its entry point (the same closure the jq VM calls, including argument casting).
func zzFn(name string) func(c any, a []any) any {
	for _, ef := range interp.DefaultRegistry.EnvFuncFns {
		f := ef(&interp.Interp{})
		if f.Name == name {
			return f.FuncFn
		}
	}
	vrt.Assert(false, "registered function exists: "+name)
	return nil
}

var _ gojqx.Function

const zzHex = "0123456789abcdef"

func zzBinBytes(v any) ([]byte, bool) {
	br, err := interp.ToBitReader(v)
	if err != nil {
		return nil, false
	}
	c, err := bitio.CloneReaderAtSeeker(br)
	if err != nil {
		return nil, false
	}
	e, _ := c.SeekBits(0, 2)
	c.SeekBits(0, 0)
	buf := make([]byte, bitio.BitsByteCount(e))
	n, err := bitio.ReadAtFull(c, buf, e, 0)
	if err != nil || n != e || e%8 != 0 {
		return nil, false
	}
	return buf, true
}

// VerifHex: to_hex is the reference encoding, from_hex(to_hex(b)) = b, and
// from_hex of an arbitrary string is an error unless the string is hex, in
// which case it is the reference decoding.
func VerifHex() {
	n := vrt.IntRange("len", 0, 4)
	b := vrt.Bytes("b", 4)[:n]
	toHex, fromHex := zzFn("to_hex"), zzFn("from_hex")
	s, ok := toHex(string(b), nil).(string)
	vrt.Assert(ok, "to_hex succeeds on bytes")
	want := make([]byte, 0, 2*n)
	for _, c := range b {
		want = append(want, zzHex[c>>4], zzHex[c&15])
	}
	vrt.Assert(s == string(want), "to_hex = two lower-case digits per byte")
	back, ok := zzBinBytes(fromHex(s, nil))
	vrt.Assert(ok && string(back) == string(b), "from_hex(to_hex(b)) = b")
}

func zzHexVal(c byte) (byte, bool) {
	switch {
	case c >= '0' && c <= '9':
		return c - '0', true
	case c >= 'a' && c <= 'f':
		return c - 'a' + 10, true
	case c >= 'A' && c <= 'F':
		return c - 'A' + 10, true
	}
	return 0, false
}

func VerifFromHexAny() {
	n := vrt.IntRange("len", 0, 4)
	s := vrt.Bytes("s", 4)[:n]
	out := zzFn("from_hex")(string(s), nil)
	valid := n%2 == 0
	dec := make([]byte, 0, n/2)
	for i := 0; i+1 < n; i += 2 {
		h, ok1 := zzHexVal(s[i])
		l, ok2 := zzHexVal(s[i+1])
		if !ok1 || !ok2 {
			valid = false
			break
		}
		dec = append(dec, h<<4|l)
	}
	if n%2 == 1 {
		valid = false
	}
	_, isErr := out.(error)
	if !valid {
		vrt.Assert(isErr, "from_hex: malformed input is an error, never a value")
		return
	}
	got, ok := zzBinBytes(out)
	vrt.Assert(!isErr && ok && string(got) == string(dec), "from_hex: reference decoding of hex digits of either case")
}

const zzStd = "ABCDEFGHIJKLMNOPQRSTUVWXYZabcdefghijklmnopqrstuvwxyz0123456789+/"
const zzURL = "ABCDEFGHIJKLMNOPQRSTUVWXYZabcdefghijklmnopqrstuvwxyz0123456789-_"

func zzRefB64(b []byte, alphabet string, pad bool) string {
	var out []byte
	for i := 0; i < len(b); i += 3 {
		var v uint32
		n := 0
		for j := 0; j < 3; j++ {
			v <<= 8
			if i+j < len(b) {
				v |= uint32(b[i+j])
				n++
			}
		}
		out = append(out, alphabet[(v>>18)&63], alphabet[(v>>12)&63])
		if n > 1 {
			out = append(out, alphabet[(v>>6)&63])
		} else if pad {
			out = append(out, '=')
		}
		if n > 2 {
			out = append(out, alphabet[v&63])
		} else if pad {
			out = append(out, '=')
		}
	}
	return string(out)
}

// VerifBase64: the four variants against a reference encoder and round trip.
func VerifBase64() {
	n := vrt.IntRange("len", 0, 5)
	b := vrt.Bytes("b", 5)[:n]
	type variant struct {
		name, alphabet string
		pad            bool
	}
	v := []variant{{"std", zzStd, true}, {"url", zzURL, true}, {"rawstd", zzStd, false}, {"rawurl", zzURL, false}}[vrt.Choice("variant", 4)]
	opts := map[string]any{"encoding": v.name}
	s, ok := zzFn("_to_base64")(string(b), []any{opts}).(string)
	vrt.Assert(ok, "to_base64 succeeds on bytes")
	vrt.Assert(s == zzRefB64(b, v.alphabet, v.pad), "to_base64 = reference encoding of the variant")
	back, ok := zzBinBytes(zzFn("_from_base64")(s, []any{opts}))
	vrt.Assert(ok && string(back) == string(b), "from_base64(to_base64(b)) = b")
}

// VerifFromBase64Any: arbitrary 4-character strings decode to the reference
// value or to an error, never to a wrong value (standard alphabet, padded).
func VerifFromBase64Any() {
	s := vrt.Bytes("s", 4)
	out := zzFn("_from_base64")(string(s), []any{map[string]any{"encoding": "std"}})
	idx := func(c byte) (uint32, bool) {
		switch {
		case c >= 'A' && c <= 'Z':
			return uint32(c - 'A'), true
		case c >= 'a' && c <= 'z':
			return uint32(c-'a') + 26, true
		case c >= '0' && c <= '9':
			return uint32(c-'0') + 52, true
		case c == '+':
			return 62, true
		case c == '/':
			return 63, true
		}
		return 0, false
	}
	got, isVal := zzBinBytes(out)
	_, isErr := out.(error)
	vrt.Assert(isVal != isErr, "from_base64: a value or an error")
	if !isVal {
		return
	}
	// whatever was accepted must be the reference decoding of the data characters
	var v uint32
	k := 0
	for _, c := range s {
		if c == '=' || c == '\n' || c == '\r' {
			continue
		}
		i, ok := idx(c)
		vrt.Assert(ok, "from_base64: only alphabet characters are accepted as data")
		v = v<<6 | i
		k++
	}
	switch k {
	case 4:
		vrt.Assert(len(got) == 3 && got[0] == byte(v>>16) && got[1] == byte(v>>8) && got[2] == byte(v), "from_base64: 4 characters -> 3 bytes")
	case 3:
		vrt.Assert(len(got) == 2 && got[0] == byte(v>>10) && got[1] == byte(v>>2), "from_base64: 3 characters -> 2 bytes")
	case 2:
		vrt.Assert(len(got) == 1 && got[0] == byte(v>>4), "from_base64: 2 characters -> 1 byte")
	case 0:
		vrt.Assert(len(got) == 0, "from_base64: nothing -> nothing")
	default:
		vrt.Assert(false, "from_base64: a single data character is never accepted")
	}
}
