package text

import (
	vrt "github.com/wader/fq/internal/zzvrt"
)

// Reference percent-decoding (RFC 3986 section 2.1; application/x-www-form-urlencoded
// additionally maps '+' to a space): ok=false for a '%' not followed by two hex digits.
func zzRefPctDecode(s []byte, plusIsSpace bool) ([]byte, bool) {
	var out []byte
	for i := 0; i < len(s); i++ {
		c := s[i]
		if c == '%' {
			if i+2 >= len(s) {
				return nil, false
			}
			h, ok1 := zzHexVal(s[i+1])
			l, ok2 := zzHexVal(s[i+2])
			if !ok1 || !ok2 {
				return nil, false
			}
			out = append(out, h<<4|l)
			i += 2
			continue
		}
		if c == '+' && plusIsSpace {
			c = ' '
		}
		out = append(out, c)
	}
	return out, true
}

func zzUnreserved(c byte) bool {
	return c >= 'a' && c <= 'z' || c >= 'A' && c <= 'Z' || c >= '0' && c <= '9' || c == '-' || c == '_' || c == '.' || c == '~'
}

// zzURLRoundTrip: to(s) is made of unreserved characters, the listed literal
// characters and upper-case %XX escapes only; the reference decoder maps it back
// to s; and fq's own decoder does too.
func zzURLRoundTrip(to, from string, literal string, plusIsSpace bool, max int) {
	n := vrt.IntRange("len", 0, max)
	b := vrt.Bytes("s", max)[:n]
	enc, ok := zzFn(to)(string(b), nil).(string)
	vrt.Assert(ok, to+" returns a string")
	e := []byte(enc)
	for i := 0; i < len(e); i++ {
		c := e[i]
		if c == '%' {
			vrt.Assert(i+2 < len(e), to+": escape is complete")
			h1, l1 := e[i+1], e[i+2]
			vrt.Assert((h1 >= '0' && h1 <= '9' || h1 >= 'A' && h1 <= 'F') && (l1 >= '0' && l1 <= '9' || l1 >= 'A' && l1 <= 'F'), to+": escapes are two upper-case hex digits")
			i += 2
			continue
		}
		lit := zzUnreserved(c)
		for j := 0; j < len(literal); j++ {
			if c == literal[j] {
				lit = true
			}
		}
		vrt.Assert(lit, to+": every other output character is unreserved or an allowed literal")
	}
	dec, ok := zzRefPctDecode(e, plusIsSpace)
	vrt.Assert(ok && string(dec) == string(b), to+": reference decoding of the output is the input")
	back, ok := zzFn(from)(enc, nil).(string)
	vrt.Assert(ok && back == string(b), from+"("+to+"(s)) = s")
}

// VerifURLEncode: to_urlencode / from_urlencode (form encoding: space <-> '+').
func VerifURLEncode()  { zzURLRoundTrip("to_urlencode", "from_urlencode", "+", true, 2) }
func VerifURLEncode3() { zzURLRoundTrip("to_urlencode", "from_urlencode", "+", true, 3) }

// VerifURLPath: to_urlpath / from_urlpath (path segment: RFC 3986 pchar literals
// that Go leaves unescaped; '+' is itself).
func VerifURLPath()  { zzURLRoundTrip("to_urlpath", "from_urlpath", "$&+=:@", false, 2) }
func VerifURLPath3() { zzURLRoundTrip("to_urlpath", "from_urlpath", "$&+=:@", false, 3) }

// zzFromURLAny: arbitrary strings decode to the reference value, or are an
// error exactly when a '%' is not followed by two hex digits.
func zzFromURLAny(from string, plusIsSpace bool) {
	n := vrt.IntRange("len", 0, 4)
	s := vrt.Bytes("s", 4)[:n]
	out := zzFn(from)(string(s), nil)
	want, valid := zzRefPctDecode(s, plusIsSpace)
	_, isErr := out.(error)
	if !valid {
		vrt.Assert(isErr, from+": malformed escape is an error, never a value")
		return
	}
	got, ok := out.(string)
	vrt.Assert(!isErr && ok && got == string(want), from+": reference percent-decoding")
}

func VerifFromURLEncodeAny() { zzFromURLAny("from_urlencode", true) }
func VerifFromURLPathAny()   { zzFromURLAny("from_urlpath", false) }
