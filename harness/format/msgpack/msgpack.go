package msgpack

import (
	"math"

	vrt "github.com/wader/fq/internal/zzvrt"
	"github.com/wader/fq/pkg/bitio"
	"github.com/wader/fq/pkg/decode"
	"github.com/wader/fq/pkg/scalar"
)

// reference decoder written from the MessagePack specification

type zzRef struct {
	ok       bool // false: truncated or never-used type
	sym      string
	kind     string // uint sint f32 f64 bool nil str bin ext array map
	u        uint64
	s        int64
	fbits    uint64
	b        bool
	extType  int64
	payStart int64 // byte offset of str/bin/ext payload
	payLen   int64
	elems    []zzRef // array elements or alternating key, value
	size     int64 // bytes consumed
}

func zzBE(b []byte, at int64, n int64) (uint64, bool) {
	if at+n > int64(len(b)) {
		return 0, false
	}
	var v uint64
	for i := int64(0); i < n; i++ {
		v = v<<8 | uint64(b[at+i])
	}
	return v, true
}

// zzParse parses one value at byte offset at. maxLen bounds payload lengths and
// element counts (larger ones end the path: outside the stated bound).
func zzParse(b []byte, at int64, depth int) zzRef {
	bad := zzRef{}
	t, ok := zzBE(b, at, 1)
	if !ok {
		return bad
	}
	r := zzRef{ok: true, size: 1}
	container := func(sym, kind string, n uint64, hdr int64) zzRef {
		if n > 2 || depth >= 2 {
			vrt.Stop("container larger than the bound")
		}
		n = vrt.SplitU(n) // positions behind a length stay concrete
		r.sym, r.kind, r.u = sym, kind, n
		p := at + hdr
		cnt := n
		if kind == "map" {
			cnt = 2 * n
		}
		for i := uint64(0); i < cnt; i++ {
			e := zzParse(b, p, depth+1)
			if !e.ok {
				return bad
			}
			r.elems = append(r.elems, e)
			p += e.size
		}
		r.size = p - at
		return r
	}
	payload := func(sym, kind string, lenBytes int64, hasType bool, fixedLen int64) zzRef {
		r.sym, r.kind = sym, kind
		p := at + 1
		n := uint64(fixedLen)
		if lenBytes > 0 {
			var ok bool
			n, ok = zzBE(b, p, lenBytes)
			if !ok {
				return bad
			}
			p += lenBytes
		}
		if n > 3 && fixedLen < 0 {
			vrt.Stop("payload longer than the bound")
		}
		n = vrt.SplitU(n)
		if hasType {
			tv, ok := zzBE(b, p, 1)
			if !ok {
				return bad
			}
			r.extType = int64(int8(tv))
			p++
		}
		if p+int64(n) > int64(len(b)) {
			return bad
		}
		r.payStart, r.payLen = p, int64(n)
		r.size = p + int64(n) - at
		return r
	}
	num := func(sym, kind string, n int64) zzRef {
		v, ok := zzBE(b, at+1, n)
		if !ok {
			return bad
		}
		r.sym, r.kind, r.size = sym, kind, 1+n
		switch kind {
		case "uint":
			r.u = v
		case "sint":
			sh := uint(64 - 8*n)
			r.s = int64(v<<sh) >> sh
		case "f32", "f64":
			r.fbits = v
		}
		return r
	}
	switch {
	case t <= 0x7f:
		r.sym, r.kind, r.u = "positive_fixint", "uint", t
		return r
	case t <= 0x8f:
		return container("fixmap", "map", t&0xf, 1)
	case t <= 0x9f:
		return container("fixarray", "array", t&0xf, 1)
	case t <= 0xbf:
		n := int64(t & 0x1f)
		if n > 3 {
			vrt.Stop("payload longer than the bound")
		}
		n = vrt.Split(n)
		if at+1+n > int64(len(b)) {
			return bad
		}
		r.sym, r.kind, r.payStart, r.payLen, r.size = "fixstr", "str", at+1, n, 1+n
		return r
	case t == 0xc0:
		r.sym, r.kind = "nil", "nil"
		return r
	case t == 0xc1:
		return bad
	case t == 0xc2:
		r.sym, r.kind, r.b = "false", "bool", false
		return r
	case t == 0xc3:
		r.sym, r.kind, r.b = "true", "bool", true
		return r
	case t == 0xc4:
		return payload("bin8", "bin", 1, false, -1)
	case t == 0xc5:
		return payload("bin16", "bin", 2, false, -1)
	case t == 0xc6:
		return payload("bin32", "bin", 4, false, -1)
	case t == 0xc7:
		return payload("ext8", "ext", 1, true, -1)
	case t == 0xc8:
		return payload("ext16", "ext", 2, true, -1)
	case t == 0xc9:
		return payload("ext32", "ext", 4, true, -1)
	case t == 0xca:
		return num("float32", "f32", 4)
	case t == 0xcb:
		return num("float64", "f64", 8)
	case t == 0xcc:
		return num("uint8", "uint", 1)
	case t == 0xcd:
		return num("uint16", "uint", 2)
	case t == 0xce:
		return num("uint32", "uint", 4)
	case t == 0xcf:
		return num("uint64", "uint", 8)
	case t == 0xd0:
		return num("int8", "sint", 1)
	case t == 0xd1:
		return num("int16", "sint", 2)
	case t == 0xd2:
		return num("int32", "sint", 4)
	case t == 0xd3:
		return num("int64", "sint", 8)
	case t == 0xd4:
		return payload("fixext1", "ext", 0, true, 1)
	case t == 0xd5:
		return payload("fixext2", "ext", 0, true, 2)
	case t == 0xd6:
		return payload("fixext4", "ext", 0, true, 4)
	case t == 0xd7:
		return payload("fixext8", "ext", 0, true, 8)
	case t == 0xd8:
		return payload("fixext16", "ext", 0, true, 16)
	case t == 0xd9:
		return payload("str8", "str", 1, false, -1)
	case t == 0xda:
		return payload("str16", "str", 2, false, -1)
	case t == 0xdb:
		return payload("str32", "str", 4, false, -1)
	case t == 0xdc, t == 0xdd, t == 0xde, t == 0xdf:
		lb := int64(2)
		if t == 0xdd || t == 0xdf {
			lb = 4
		}
		n, ok := zzBE(b, at+1, lb)
		if !ok {
			return bad
		}
		sym := map[uint64]string{0xdc: "array16", 0xdd: "array32", 0xde: "map16", 0xdf: "map32"}[t]
		kind := "array"
		if t >= 0xde {
			kind = "map"
		}
		return container(sym, kind, n, 1+lb)
	default:
		r.sym, r.kind, r.s = "negative_fixint", "sint", int64(int8(t))
		return r
	}
}

func zzField(v *decode.Value, name string) *decode.Value {
	c, ok := v.V.(*decode.Compound)
	if !ok || c.ByName == nil {
		return nil
	}
	return c.ByName[name]
}

// zzCompare checks the decoded struct v (fields type, value, length, ...) against the reference.
func zzCompare(buf []byte, v *decode.Value, r zzRef, at int64) {
	tf := zzField(v, "type")
	vrt.Assert(tf != nil, "msgpack: value has a type field")
	if tf == nil {
		return
	}
	tu, _ := tf.V.(*scalar.Uint)
	vrt.Assert(tu != nil && tu.Sym == r.sym, "msgpack: type symbol is the wire type of the specification")
	if !v.IsRoot { // (the root also spans the gap field behind the value)
		vrt.Assert(v.Range.Start == at*8 && v.Range.Len == r.size*8, "msgpack: the value spans exactly its encoding")
	}
	val := zzField(v, "value")
	switch r.kind {
	case "uint":
		u, ok := val.V.(*scalar.Uint)
		vrt.Assert(ok && u.Actual == r.u, "msgpack: unsigned integer value")
	case "sint":
		s, ok := val.V.(*scalar.Sint)
		vrt.Assert(ok && s.Actual == r.s, "msgpack: signed integer value")
	case "f32":
		f, ok := val.V.(*scalar.Flt)
		want := float64(math.Float32frombits(uint32(r.fbits)))
		vrt.Assert(ok && (f.Actual != f.Actual && want != want || math.Float64bits(f.Actual) == math.Float64bits(want)), "msgpack: float32 value")
	case "f64":
		f, ok := val.V.(*scalar.Flt)
		vrt.Assert(ok && math.Float64bits(f.Actual) == r.fbits, "msgpack: float64 value")
	case "bool":
		b, ok := val.V.(*scalar.Bool)
		vrt.Assert(ok && b.Actual == r.b, "msgpack: boolean value")
	case "nil":
		a, ok := val.V.(*scalar.Any)
		vrt.Assert(ok && a.Actual == nil, "msgpack: nil value")
	case "str", "bin", "ext":
		vrt.Assert(val != nil && val.Range.Start == r.payStart*8 && val.Range.Len == r.payLen*8, "msgpack: payload is exactly the declared bytes")
		if r.kind == "ext" {
			ft := zzField(v, "fixtype")
			s, ok := ft.V.(*scalar.Sint)
			vrt.Assert(ok && s.Actual == r.extType, "msgpack: extension type")
		}
		if r.kind == "str" {
			s, ok := val.V.(*scalar.Str)
			vrt.Assert(ok && len(s.Actual) == int(r.payLen), "msgpack: string length")
		}
	case "array", "map":
		lf := zzField(v, "length")
		lu, ok := lf.V.(*scalar.Uint)
		vrt.Assert(ok && lu.Actual == r.u, "msgpack: container length")
		name := "elements"
		if r.kind == "map" {
			name = "pairs"
		}
		cf := zzField(v, name)
		cc, ok := cf.V.(*decode.Compound)
		vrt.Assert(ok && uint64(len(cc.Children)) == r.u, "msgpack: element count")
		if !ok || uint64(len(cc.Children)) != r.u {
			return
		}
		p := at + (r.size - zzSum(r.elems))
		for i, ch := range cc.Children {
			if r.kind == "array" {
				zzCompare(buf, ch, r.elems[i], p)
				p += r.elems[i].size
			} else {
				zzCompare(buf, zzField(ch, "key"), r.elems[2*i], p)
				p += r.elems[2*i].size
				zzCompare(buf, zzField(ch, "value"), r.elems[2*i+1], p)
				p += r.elems[2*i+1].size
			}
		}
	}
}

func zzSum(es []zzRef) int64 {
	var s int64
	for _, e := range es {
		s += e.size
	}
	return s
}

// VerifMsgpack: for every input of up to N bytes the decoder either reports a
// truncated/invalid encoding or produces the tree the specification defines:
// wire type, value, payload byte range, container shape; trailing bytes are a gap.
func VerifMsgpack() { verifMsgpack(5) }

// VerifMsgpackLong: thorough tier.
func VerifMsgpackLong() { verifMsgpack(8) }

func verifMsgpack(N int) {
	L := vrt.IntRange("len", 0, N)
	buf := vrt.Bytes("b", N)[:L]
	ref := zzParse(buf, 0, 0)
	root, _, err := decode.Decode(nil, bitio.NewBitReader(buf, -1), decode.FormatFn(decodeMsgPack), decode.Options{IsRoot: true, FillGaps: true})
	if !ref.ok {
		vrt.Assert(err != nil, "msgpack: truncated or invalid input is reported as an error")
		return
	}
	vrt.Assert(err == nil && root != nil, "msgpack: a complete encoding decodes")
	if err != nil || root == nil {
		return
	}
	zzCompare(buf, root, ref, 0)
	// bytes behind the value belong to no field but a gap
	if ref.size < int64(L) {
		g := zzField(root, "gap0")
		vrt.Assert(g != nil && g.Range.Start == ref.size*8 && g.Range.Len == (int64(L)-ref.size)*8, "msgpack: trailing bytes are reported as a gap")
	}
}

// zzNoCrash: any input of up to n bytes, forced or not: tree or error, no panic.
func zzNoCrash(n int) {
	L := vrt.IntRange("len", 0, n)
	buf := vrt.Bytes("b", n)[:L]
	force := vrt.Choice("force", 2) == 1
	root, _, err := decode.Decode(nil, bitio.NewBitReader(buf, -1), decode.FormatFn(decodeMsgPack), decode.Options{IsRoot: true, FillGaps: true, Force: force})
	vrt.Assert(root != nil || err != nil, "decode returns a tree or an error")
}

func VerifNoCrash()     { zzNoCrash(4) }
func VerifNoCrashLong() { zzNoCrash(6) }
