package gz

import (
	vrt "github.com/wader/fq/internal/zzvrt"
	"github.com/wader/fq/pkg/bitio"
	"github.com/wader/fq/pkg/decode"
	"github.com/wader/fq/pkg/scalar"
)

// An independent gzip writer (RFC 1952 header, RFC 1951 stored block) and the
// checks that fq reports what the writer stored.

// Known finding K2 (pinned by the goldens of format/gzip/testdata, which print the bit
// position of every flag): gzipDecodeMember reads the FLG bits most significant bit first
// (text, header_crc, extra, name, comment, reserved:3) while RFC 1952 numbers them from the
// least significant bit (FTEXT=bit 0 ... FCOMMENT=bit 4, reserved=bits 5..7). Every file
// with a non-zero FLG byte is misread (FNAME shows as comment, FHCRC/FEXTRA are not
// skipped). zzK2 is the signature: some member was written with a flag set.
var zzK2 bool

func zzA(c bool, msg string) { vrt.AssertKnown(c, msg, "K2", zzK2) }

func zzChild(v *decode.Value, name string) *decode.Value {
	c, ok := v.V.(*decode.Compound)
	zzA(ok, "gzip: value "+name+" has a compound parent")
	var found *decode.Value
	for _, f := range c.Children {
		if f.Name == name {
			zzA(found == nil, "gzip: field "+name+" is unique")
			found = f
		}
	}
	return found
}

func zzU(v *decode.Value) uint64 {
	u, ok := v.V.(*scalar.Uint)
	zzA(ok, "gzip: unsigned field")
	return u.Actual
}

func zzRangeBytes(v *decode.Value, buf []byte) []byte {
	zzA(v.Range.Start%8 == 0 && v.Range.Len%8 == 0, "gzip: field is byte aligned")
	return buf[v.Range.Start/8 : v.Range.Stop()/8]
}

// bitwise CRC-32 (IEEE 802.3, reflected, as RFC 1952 section 8 specifies)
func zzCRC32(b []byte) uint32 {
	crc := ^uint32(0)
	for _, c := range b {
		crc ^= uint32(c)
		for i := 0; i < 8; i++ {
			if crc&1 != 0 {
				crc = crc>>1 ^ 0xedb88320
			} else {
				crc >>= 1
			}
		}
	}
	return ^crc
}

type zzMember struct {
	text, hcrc, extra, name, comment bool
	mtime                            uint32
	xfl, os                          byte
	extraData, nameData, commentData []byte
	hcrcData                         [2]byte
	payload                          []byte
	crc                              uint32
	isize                            uint32
}

func (m *zzMember) write(out []byte) []byte {
	flg := byte(0)
	if m.text {
		flg |= 1
	}
	if m.hcrc {
		flg |= 2
	}
	if m.extra {
		flg |= 4
	}
	if m.name {
		flg |= 8
	}
	if m.comment {
		flg |= 16
	}
	out = append(out, 0x1f, 0x8b, 8, flg, byte(m.mtime), byte(m.mtime>>8), byte(m.mtime>>16), byte(m.mtime>>24), m.xfl, m.os)
	if m.extra {
		out = append(out, byte(len(m.extraData)), byte(len(m.extraData)>>8))
		out = append(out, m.extraData...)
	}
	if m.name {
		out = append(out, m.nameData...)
		out = append(out, 0)
	}
	if m.comment {
		out = append(out, m.commentData...)
		out = append(out, 0)
	}
	if m.hcrc {
		out = append(out, m.hcrcData[0], m.hcrcData[1])
	}
	n := len(m.payload)
	out = append(out, 1, byte(n), byte(n>>8), ^byte(n), ^byte(n>>8)) // final stored block
	out = append(out, m.payload...)
	out = append(out, byte(m.crc), byte(m.crc>>8), byte(m.crc>>16), byte(m.crc>>24))
	out = append(out, byte(m.isize), byte(m.isize>>8), byte(m.isize>>16), byte(m.isize>>24))
	return out
}

func zzDecode(buf []byte) (*decode.Value, error) {
	probeGroup = decode.Group{Name: "probe"} // no nested formats: payload stays raw
	root, _, err := decode.Decode(nil, bitio.NewBitReader(buf, -1), decode.FormatFn(gzipDecode), decode.Options{IsRoot: true, FillGaps: true})
	return root, err
}

func zzCheckMember(mv *decode.Value, m *zzMember, buf []byte) {
	zzA(zzU(zzChild(mv, "compression_method")) == 8, "gzip: compression method")
	fl := zzChild(mv, "flags")
	fb := func(n string) bool {
		b, ok := zzChild(fl, n).V.(*scalar.Bool)
		zzA(ok, "gzip: flag is a boolean")
		return b.Actual
	}
	zzA(fb("text") == m.text && fb("header_crc") == m.hcrc && fb("extra") == m.extra && fb("name") == m.name && fb("comment") == m.comment, "gzip: header flags as written")
	zzA(zzU(zzChild(mv, "mtime")) == uint64(m.mtime), "gzip: mtime little-endian")
	zzA(zzU(zzChild(mv, "extra_flags")) == uint64(m.xfl) && zzU(zzChild(mv, "os")) == uint64(m.os), "gzip: xfl and os")
	xf := zzChild(mv, "extra_fields")
	zzA((xf != nil) == m.extra, "gzip: extra field present iff flagged")
	if xf != nil {
		zzA(zzU(zzChild(mv, "xlen")) == uint64(len(m.extraData)) && string(zzRangeBytes(xf, buf)) == string(m.extraData), "gzip: extra field bytes as written")
	}
	for _, t := range []struct {
		n    string
		on   bool
		data []byte
	}{{"name", m.name, m.nameData}, {"comment", m.comment, m.commentData}} {
		f := zzChild(mv, t.n)
		zzA((f != nil) == t.on, "gzip: "+t.n+" present iff flagged")
		if f != nil {
			s, ok := f.V.(*scalar.Str)
			zzA(ok && s.Actual == string(t.data), "gzip: "+t.n+" as written")
			zzA(f.Range.Len == int64(len(t.data)+1)*8, "gzip: "+t.n+" spans the text and its terminator")
		}
	}
	hc := zzChild(mv, "header_crc")
	zzA((hc != nil) == m.hcrc, "gzip: header crc present iff flagged")
	comp := zzChild(mv, "compressed")
	zzA(comp != nil && comp.Range.Len == int64(5+len(m.payload))*8, "gzip: compressed size is the deflate stream")
	un := zzChild(mv, "uncompressed")
	zzA(un != nil && un.IsRoot, "gzip: member payload is a nested root")
	br, ok := un.V.(*scalar.BitBuf)
	zzA(ok, "gzip: payload is raw bits")
	zzA(un.Range.Len == int64(len(m.payload))*8, "gzip: decompressed size equals the original size")
	got := make([]byte, len(m.payload))
	n, _ := bitio.ReadAtFull(br.Actual, got, int64(len(got))*8, 0)
	zzA(n == int64(len(m.payload))*8 && string(got) == string(m.payload), "gzip: decompressed payload equals the original")
	cf := zzChild(mv, "crc32")
	cu, ok := cf.V.(*scalar.Uint)
	zzA(ok && cu.Actual == uint64(m.crc), "gzip: stored crc32 little-endian")
	if m.crc == zzCRC32(m.payload) {
		zzA(cu.Description == "valid", "gzip: crc32 of an intact member is marked valid")
	} else {
		zzA(cu.Description == "invalid", "gzip: crc32 that does not match the payload is marked invalid")
	}
	zzA(zzU(zzChild(mv, "isize")) == uint64(m.isize), "gzip: isize")
}

// VerifGzipStructure: one or two members without optional header fields,
// symbolic mtime / xfl / os, a stored payload of 0..2 fixed bytes and a correct
// crc: fq reports exactly what was written, per member and concatenated.
func VerifGzipStructure() {
	nm := vrt.IntRange("members", 1, 2)
	zzK2 = false
	var ms []*zzMember
	var buf []byte
	for i := 0; i < nm; i++ {
		m := &zzMember{}
		// mtime: representatives (a symbolic time stamp makes the date description a chain of
		// divisions by constants the solver does not decide)
		m.mtime, m.xfl, m.os = 1, 0, 3
		if i == 0 {
			m.mtime = []uint32{0, 0x01020304, 0x7fffffff, 0x80000000, 0xfffefdfc}[vrt.Choice("mtime", 5)]
			m.xfl, m.os = vrt.Uint8("xfl"), vrt.Uint8("os")
		}
		m.payload = []byte("hi")[:vrt.IntRange("paylen", 0, 2)]
		m.crc, m.isize = zzCRC32(m.payload), uint32(len(m.payload))
		buf = m.write(buf)
		ms = append(ms, m)
	}
	zzCheckFile(buf, ms)
}

// VerifGzipOptionalFields: one member written with one or more of FTEXT / FHCRC /
// FEXTRA / FNAME / FCOMMENT (fixed small contents): fq reports the fields the writer
// stored. Known finding K2: fq reads the FLG bits in reversed order.
func VerifGzipOptionalFields() {
	m := &zzMember{os: 3, mtime: 0x01020304}
	m.text, m.hcrc, m.extra, m.name, m.comment = vrt.Bool("text"), vrt.Bool("hcrc"), vrt.Bool("extra"), vrt.Bool("name"), vrt.Bool("comment")
	zzK2 = m.text || m.hcrc || m.extra || m.name || m.comment
	if m.extra {
		m.extraData = []byte{0x41, 0x42}
	}
	if m.name {
		m.nameData = []byte("ab")
	}
	if m.comment {
		m.commentData = []byte("c")
	}
	m.hcrcData = [2]byte{0xaa, 0xbb}
	m.payload = []byte("hi")
	m.crc, m.isize = zzCRC32(m.payload), 2
	zzCheckFile(m.write(nil), []*zzMember{m})
}

func zzCheckFile(buf []byte, ms []*zzMember) {
	root, err := zzDecode(buf)
	zzA(root != nil && err == nil, "gzip: a well formed file decodes without error")
	mc, ok := zzChild(root, "members").V.(*decode.Compound)
	zzA(ok && len(mc.Children) == len(ms), "gzip: member count")
	for i, m := range ms {
		zzCheckMember(mc.Children[i], m, buf)
	}
	// the concatenation of all members is exposed as the file's uncompressed data
	un := zzChild(root, "uncompressed")
	zzA(un != nil, "gzip: concatenated payload present")
	br, ok := un.V.(*scalar.BitBuf)
	zzA(ok, "gzip: concatenated payload raw")
	var all []byte
	for _, m := range ms {
		all = append(all, m.payload...)
	}
	zzA(un.Range.Len == int64(len(all))*8, "gzip: concatenated size")
	got := make([]byte, len(all))
	n, _ := bitio.ReadAtFull(br.Actual, got, int64(len(got))*8, 0)
	zzA(n == int64(len(all))*8 && string(got) == string(all), "gzip: concatenated payload equals the originals in order")
}

// VerifGzipChecksum: the crc32 mark is "valid" exactly when the stored value is
// the CRC-32 of the payload: symbolic stored value over a fixed payload, and a
// symbolic payload byte against a fixed stored value (an altered covered byte
// never shows as valid).
func VerifGzipChecksum() {
	m := &zzMember{os: 3}
	zzK2 = false
	if vrt.Choice("mode", 2) == 0 {
		m.payload = []byte("fq")
		m.crc = vrt.Uint32("stored")
	} else {
		m.payload = []byte{'f', vrt.Uint8("altered")}
		m.crc = zzCRC32([]byte("fq"))
	}
	m.isize = 2
	buf := m.write(nil)
	root, _ := zzDecode(buf)
	zzA(root != nil, "gzip: decodes")
	mc, ok := zzChild(root, "members").V.(*decode.Compound)
	zzA(ok && len(mc.Children) == 1, "gzip: one member")
	zzCheckMember(mc.Children[0], m, buf)
}
