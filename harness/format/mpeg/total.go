package mpeg

import (
	"github.com/wader/fq/pkg/interp"
)

func VerifTotalNalUnescape() { interp.ZZTotal("nal_unescape", 0) }
