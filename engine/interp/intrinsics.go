package interp

// Intrinsics: functions whose real bodies are assembly, runtime-internal,
// unsafe- or reflection-based, implemented with their exact contract; and
// contract stubs (fmt) whose text result is never the subject of a check.

import (
	"fmt"
	"go/token"
	"go/types"
	"math"
	"strings"

	"golang.org/x/tools/go/ssa"
)

func stubHit(name string) { ex.stats.Stubs[name]++ }

// callMethod calls method name on the dynamic value of recv; ok=false if absent.
func callMethod(fr *frame, recv iface, name string, args ...value) (res value, ok bool) {
	if recv.t == nil {
		return nil, false
	}
	mset := fr.i.prog.MethodSets.MethodSet(recv.t)
	sel := mset.Lookup(nil, name)
	if sel == nil {
		return nil, false
	}
	fn := fr.i.prog.MethodValue(sel)
	if fn == nil {
		return nil, false
	}
	return call(fr.i, fr, token.NoPos, fn, append([]value{recv.v}, args...)), true
}

func methodSig(i *interpreter, t types.Type, name string) *types.Signature {
	if t == nil {
		return nil
	}
	sel := i.prog.MethodSets.MethodSet(t).Lookup(nil, name)
	if sel == nil {
		return nil
	}
	return sel.Type().(*types.Signature)
}

var errorIface = types.Universe.Lookup("error").Type().Underlying().(*types.Interface)

func isErrorType(t types.Type) bool { return t != nil && types.Implements(t, errorIface) }

// ---- side tables for sync primitives -------------------------------------------

type mutexState struct {
	locked  bool
	readers int
	owner   *thread
	rel     vclock // clock of the last (write) unlock
	rrel    vclock // join of the clocks of the read unlocks
}

type onceState struct {
	done, running bool
	clock         vclock
}

type wgState struct {
	n     int64
	clock vclock
}

var onces = map[*value]*onceState{}
var wgs = map[*value]*wgState{}

var mutexes = map[*value]*mutexState{}
var onceDone = map[*value]bool{}

func resetSideTables() {
	mutexes = map[*value]*mutexState{}
	onceDone = map[*value]bool{}
	onces = map[*value]*onceState{}
	wgs = map[*value]*wgState{}
}

func mutexOf(p *value) *mutexState {
	m := mutexes[p]
	if m == nil {
		m = &mutexState{}
		mutexes[p] = m
	}
	return m
}

func fieldIndex(t types.Type, name string) int {
	st := t.Underlying().(*types.Struct)
	for i := 0; i < st.NumFields(); i++ {
		if st.Field(i).Name() == name {
			return i
		}
	}
	panic("no field " + name)
}

func recvStruct(fr *frame, args []value) (structure, types.Type) {
	p := args[0].(*value)
	t := mustDeref(fr.fn.Signature.Recv().Type())
	return (*p).(structure), t
}

func fmtArg(fr *frame, v value, depth int) interface{} {
	switch x := v.(type) {
	case iface:
		if x.t == nil {
			return nil
		}
		if depth < 3 && strings.HasSuffix(x.t.String(), "internal/ansi.colorFormatter") {
			// fmt.Formatter of fq's ansi package: for %s the non-nil elements printed one after the other
			if arr, ok := x.v.(array); ok {
				out := ""
				for _, e := range arr {
					if ie, ok := e.(iface); ok && ie.t == nil {
						continue
					}
					out += fmt.Sprint(fmtArg(fr, e, depth+1))
				}
				return out
			}
		}
		if depth < 3 {
			if isErrorType(x.t) {
				if r, ok := callMethod(fr, x, "Error"); ok {
					return fmtArg(fr, r, depth+1)
				}
			}
			if sig := methodSig(fr.i, x.t, "String"); sig != nil && sig.Params().Len() == 0 && sig.Results().Len() == 1 {
				if b, ok := sig.Results().At(0).Type().Underlying().(*types.Basic); ok && b.Kind() == types.String {
					if r, ok := callMethod(fr, x, "String"); ok {
						return fmtArg(fr, r, depth+1)
					}
				}
			}
		}
		return fmtArg(fr, x.v, depth+1)
	case sym:
		return "<sym>"
	case symStr:
		return "<symstr>"
	case string, bool, int, int8, int16, int32, int64, uint, uint8, uint16, uint32, uint64, uintptr, float32, float64:
		return x
	case []value:
		if depth > 3 || len(x) > 64 {
			return fmt.Sprintf("[%d elems]", len(x))
		}
		out := make([]interface{}, len(x))
		for i, e := range x {
			out[i] = fmtArg(fr, e, depth+1)
		}
		return out
	case *value:
		if x == nil {
			return nil
		}
		return "<ptr>"
	case structure:
		return "<struct>"
	}
	return fmt.Sprintf("<%T>", v)
}

func doSprintf(fr *frame, format string, args []value) string {
	as := make([]interface{}, len(args))
	for i, a := range args {
		as[i] = fmtArg(fr, a, 0)
	}
	format = strings.ReplaceAll(format, "%w", "%v")
	s := fmt.Sprintf(format, as...)
	return s
}

func doSprint(fr *frame, args []value, ln bool) string {
	as := make([]interface{}, len(args))
	for i, a := range args {
		as[i] = fmtArg(fr, a, 0)
	}
	if ln {
		return fmt.Sprintln(as...)
	}
	return fmt.Sprint(as...)
}

func writeTo(fr *frame, w value, s string) value {
	b := make([]value, len(s))
	for i := 0; i < len(s); i++ {
		b[i] = s[i]
	}
	r, ok := callMethod(fr, w.(iface), "Write", b)
	if !ok {
		panic(runtimeError{"invalid memory address or nil pointer dereference (nil io.Writer)"})
	}
	return r
}

func mkError(fr *frame, msg string, wrapped value) value {
	fmtPkg := fr.i.prog.ImportedPackage("fmt")
	if wrapped != nil && fmtPkg != nil {
		if tn := fmtPkg.Type("wrapError"); tn != nil {
			st := value(structure{msg, wrapped})
			return iface{t: types.NewPointer(tn.Type()), v: &st}
		}
	}
	errPkg := fr.i.prog.ImportedPackage("errors")
	tn := errPkg.Type("errorString")
	st := value(structure{msg})
	return iface{t: types.NewPointer(tn.Type()), v: &st}
}

func errUnwrap(fr *frame, e iface) (iface, []value, bool) {
	sig := methodSig(fr.i, e.t, "Unwrap")
	if sig == nil || sig.Params().Len() != 0 || sig.Results().Len() != 1 {
		return iface{}, nil, false
	}
	r, ok := callMethod(fr, e, "Unwrap")
	if !ok {
		return iface{}, nil, false
	}
	switch x := r.(type) {
	case iface:
		return x, nil, true
	case []value:
		return iface{}, x, true
	}
	return iface{}, nil, false
}

func errorsIs(fr *frame, err, target iface) bool {
	if err.t == nil || target.t == nil {
		return err.t == nil && target.t == nil
	}
	comparable := types.Comparable(target.t)
	for {
		if comparable && sameType(err.t, target.t) && equals(err.t, err.v, target.v) {
			return true
		}
		if sig := methodSig(fr.i, err.t, "Is"); sig != nil && sig.Params().Len() == 1 && sig.Results().Len() == 1 {
			if r, ok := callMethod(fr, err, "Is", target); ok {
				if b, isb := conc(r).(bool); isb && b {
					return true
				}
			}
		}
		one, many, ok := errUnwrap(fr, err)
		if !ok {
			return false
		}
		if many != nil {
			for _, e := range many {
				if ei := e.(iface); ei.t != nil && errorsIs(fr, ei, target) {
					return true
				}
			}
			return false
		}
		if one.t == nil {
			return false
		}
		err = one
	}
}

func errorsAs(fr *frame, err iface, target iface) bool {
	if err.t == nil {
		return false
	}
	pt, ok := target.t.Underlying().(*types.Pointer)
	if !ok || target.v.(*value) == nil {
		panic(targetPanic{iface{fr.i.runtimeErrorString, "errors: target must be a non-nil pointer"}})
	}
	T := pt.Elem()
	_, tIsIface := T.Underlying().(*types.Interface)
	for {
		if tIsIface {
			if types.Implements(err.t, T.Underlying().(*types.Interface)) {
				*(target.v.(*value)) = err
				return true
			}
		} else if types.Identical(err.t, T) {
			store(T, target.v.(*value), err.v)
			return true
		}
		if sig := methodSig(fr.i, err.t, "As"); sig != nil && sig.Params().Len() == 1 && sig.Results().Len() == 1 {
			if r, ok := callMethod(fr, err, "As", target); ok {
				if b, isb := conc(r).(bool); isb && b {
					return true
				}
			}
		}
		one, many, ok := errUnwrap(fr, err)
		if !ok {
			return false
		}
		if many != nil {
			for _, e := range many {
				if ei := e.(iface); ei.t != nil && errorsAs(fr, ei, target) {
					return true
				}
			}
			return false
		}
		if one.t == nil {
			return false
		}
		err = one
	}
}

func cf64(v value) float64 { return conc(v).(float64) }

type sliceData struct{ s []value }
type stringData struct{ s value }

func init() {
	for _, k := range []string{"bytes.Equal", "bytes.IndexByte", "fmt.Sprint", "math.Abs", "math.Copysign", "math.IsNaN", "math.Inf", "math.NaN",
		"math.Ldexp", "sort.Float64s", "sort.Ints", "sort.Strings", "strconv.Atoi", "strconv.Itoa", "strings.Count", "strings.EqualFold",
		"strings.Index", "strings.IndexByte", "strings.Replace", "strings.ToLower", "unicode/utf8.DecodeRuneInString", "time.Sleep",
		"math.Float64bits", "math.Float64frombits", "math.Float32bits", "math.Float32frombits", "math.Min", "os.Getenv"} {
		delete(externals, k)
	}
	reg := func(name string, f externalFn) { externals[name] = f }

	// ---- math bit casts ----
	reg("math.Float64bits", func(fr *frame, a []value) value { return mkVal(types.Uint64, FPToBits(termOf(a[0]))) })
	reg("math.Float32bits", func(fr *frame, a []value) value { return mkVal(types.Uint32, FPToBits(termOf(a[0]))) })
	reg("math.Float64frombits", func(fr *frame, a []value) value { return mkVal(types.Float64, FPFromBits(termOf(a[0]), SF64)) })
	reg("math.Float32frombits", func(fr *frame, a []value) value { return mkVal(types.Float32, FPFromBits(termOf(a[0]), SF32)) })
	reg("math.Exp", func(fr *frame, a []value) value { return math.Exp(cf64(a[0])) })
	reg("math.Log", func(fr *frame, a []value) value { return math.Log(cf64(a[0])) })
	reg("math.Sqrt", func(fr *frame, a []value) value { return math.Sqrt(cf64(a[0])) })
	reg("math.Floor", func(fr *frame, a []value) value { return math.Floor(cf64(a[0])) })
	reg("math.Ceil", func(fr *frame, a []value) value { return math.Ceil(cf64(a[0])) })
	reg("math.Trunc", func(fr *frame, a []value) value { return math.Trunc(cf64(a[0])) })
	reg("math.Log2", func(fr *frame, a []value) value { return math.Log2(cf64(a[0])) })
	reg("math.Log10", func(fr *frame, a []value) value { return math.Log10(cf64(a[0])) })
	reg("math.Pow", func(fr *frame, a []value) value { return math.Pow(cf64(a[0]), cf64(a[1])) })
	reg("strconv.FormatFloat", func(fr *frame, a []value) value {
		if isSym(a[0]) {
			stubHit("strconv.FormatFloat (symbolic number -> placeholder numeral)")
			return "0"
		}
		return ext۰strconv۰FormatFloat(fr, []value{conc(a[0]), conc(a[1]), conc(a[2]), conc(a[3])})
	})
	reg("os.Getenv", func(fr *frame, a []value) value { return "" })
	// sort.Slice/SliceStable: reflection based swapper in the standard library; here a stable
	// insertion sort that calls the target's less function on the live slice
	sortSlice := func(fr *frame, a []value) value {
		x, ok := a[0].(iface).v.([]value)
		if !ok {
			panic(unsupported{"sort.Slice of a non-slice"})
		}
		for i := 1; i < len(x); i++ {
			for j := i; j > 0; j-- {
				r := call(fr.i, fr, token.NoPos, a[1], []value{j, j - 1})
				if !conc(r).(bool) {
					break
				}
				x[j], x[j-1] = x[j-1], x[j]
			}
		}
		return nil
	}
	reg("sort.Slice", sortSlice)
	reg("sort.SliceStable", sortSlice)
	reg("os.LookupEnv", func(fr *frame, a []value) value { return tuple{"", false} })

	// ---- internal/bytealg ----
	indexByte := func(s []value, c value) value {
		for i, b := range s {
			if conc(symBinopEq(b, c)).(bool) {
				return i
			}
		}
		return -1
	}
	reg("internal/bytealg.IndexByte", func(fr *frame, a []value) value { return indexByte(a[0].([]value), a[1]) })
	reg("internal/bytealg.IndexByteString", func(fr *frame, a []value) value { return indexByte(strBytes(a[0]), a[1]) })
	count := func(s []value, c value) value {
		n := 0
		for _, b := range s {
			if conc(symBinopEq(b, c)).(bool) {
				n++
			}
		}
		return n
	}
	reg("internal/bytealg.Count", func(fr *frame, a []value) value { return count(a[0].([]value), a[1]) })
	reg("internal/bytealg.CountString", func(fr *frame, a []value) value { return count(strBytes(a[0]), a[1]) })
	reg("internal/bytealg.CompareString", func(fr *frame, a []value) value {
		return externals["internal/bytealg.Compare"](fr, []value{strBytes(a[0]), strBytes(a[1])})
	})
	reg("internal/bytealg.Compare", func(fr *frame, a []value) value {
		x, y := a[0].([]value), a[1].([]value)
		for i := 0; i < len(x) && i < len(y); i++ {
			if conc(symBinopEq(x[i], y[i])).(bool) {
				continue
			}
			if conc(symBinop(token.LSS, nil, x[i], y[i])).(bool) {
				return -1
			}
			return 1
		}
		switch {
		case len(x) < len(y):
			return -1
		case len(x) > len(y):
			return 1
		}
		return 0
	})
	reg("internal/bytealg.Equal", func(fr *frame, a []value) value {
		return mkVal(types.Bool, strEqT(mkStr(a[0].([]value)), mkStr(a[1].([]value))))
	})
	reg("internal/bytealg.MakeNoZero", func(fr *frame, a []value) value {
		n := asInt64(a[0])
		if n < 0 || n > 1<<47 {
			panic(runtimeError{"makeslice: len out of range"})
		}
		if n > maxAlloc {
			ex.Cover("huge-allocation", BoolT(true))
			panic(pathEnd{"allocation larger than engine limit"})
		}
		s := make([]value, n)
		for i := range s {
			s[i] = uint8(0)
		}
		return s
	})
	reg("internal/stringslite.Clone", func(fr *frame, a []value) value { return a[0] })
	reg("strings.Clone", func(fr *frame, a []value) value { return a[0] })
	reg("(*strings.Builder).String", func(fr *frame, a []value) value {
		st := (*a[0].(*value)).(structure)
		return mkStr(st[1].([]value))
	})
	reg("(*strings.Builder).copyCheck", func(fr *frame, a []value) value { return nil })
	reg("internal/abi.NoEscape", func(fr *frame, a []value) value { return a[0] })
	reg("internal/abi.Escape", func(fr *frame, a []value) value { return a[0] })
	reg("internal/race.Enable", func(fr *frame, a []value) value { return nil })
	reg("internal/race.Disable", func(fr *frame, a []value) value { return nil })
	reg("runtime.KeepAlive", func(fr *frame, a []value) value { return nil })
	reg("runtime.SetFinalizer", func(fr *frame, a []value) value { return nil })

	// ---- x/text (contract stub: identity on ASCII; transcoding is outside every claim) ----
	reg("(*golang.org/x/text/encoding.Decoder).String", func(fr *frame, a []value) value {
		stubHit("x/text Decoder.String (identity)")
		return tuple{a[1], iface{}}
	})
	reg("(*golang.org/x/text/encoding.Decoder).Bytes", func(fr *frame, a []value) value {
		stubHit("x/text Decoder.Bytes (identity)")
		return tuple{a[1], iface{}}
	})

	// ---- strconv on symbolic numbers: contract stub "some numeral" (number formatting is
	// never the subject when the number is symbolic; concrete arguments run the real code)
	numStub := func(name string, symArg int, isAppend bool) {
		orig := name
		reg(orig, func(fr *frame, a []value) value {
			if !isSym(a[symArg]) {
				// run the real body
				return runBody(fr.i, fr, fr.fn, a, nil)
			}
			stubHit(orig + " (symbolic number -> placeholder numeral)")
			if isAppend {
				return append(a[0].([]value), uint8('0'))
			}
			return "0"
		})
	}
	bigStub := func(name string) {
		reg(name, func(fr *frame, a []value) value {
			symbolic := false
			if p, ok := a[0].(*value); ok && p != nil {
				if st, ok := (*p).(structure); ok && len(st) == 2 {
					if ws, ok := st[1].([]value); ok {
						for _, w := range ws {
							if isSym(w) {
								symbolic = true
							}
						}
					}
				}
			}
			if !symbolic {
				return runBody(fr.i, fr, fr.fn, a, nil)
			}
			stubHit(name + " (symbolic big integer -> placeholder numeral)")
			return "0"
		})
	}
	reg("(*math/big.Int).Append", func(fr *frame, a []value) value {
		symbolic := false
		if p, ok := a[0].(*value); ok && p != nil {
			if st, ok := (*p).(structure); ok && len(st) == 2 {
				if ws, ok := st[1].([]value); ok {
					for _, w := range ws {
						if isSym(w) {
							symbolic = true
						}
					}
				}
			}
		}
		if !symbolic {
			return runBody(fr.i, fr, fr.fn, a, nil)
		}
		stubHit("(*math/big.Int).Append (symbolic big integer -> placeholder numeral)")
		return append(a[1].([]value), uint8('0'))
	})
	bigStub("(*math/big.Int).Text")
	bigStub("(*math/big.Int).String")
	numStub("strconv.FormatInt", 0, false)
	numStub("strconv.FormatUint", 0, false)
	numStub("strconv.Itoa", 0, false)
	numStub("strconv.AppendInt", 1, true)
	numStub("strconv.AppendUint", 1, true)
	numStub("strconv.AppendFloat", 1, true)

	// ---- third-party / reflective encoders: contract stubs ("returns without panic for
	// arguments satisfying the documented precondition"); their own code is outside every claim
	nilErr := func(name string) {
		reg(name, func(fr *frame, a []value) value { stubHit(name + " (contract stub)"); return iface{} })
	}
	// toml.Encoder.Encode(v): v must not be a nil interface (the real encoder calls
	// reflect.ValueOf(v).Type(), which panics on the zero Value and is not recovered)
	reg("(*github.com/BurntSushi/toml.Encoder).Encode", func(fr *frame, a []value) value {
		stubHit("toml.Encoder.Encode (contract stub, precondition v != nil checked)")
		if v, ok := a[1].(iface); ok && v.t == nil {
			panic(targetPanic{iface{fr.i.runtimeErrorString, "reflect: call of reflect.Value.Type on zero Value"}})
		}
		return iface{}
	})
	nilErr("(*gopkg.in/yaml.v3.Encoder).Encode")
	nilErr("(*gopkg.in/yaml.v3.Encoder).Close")
	reg("(*gopkg.in/yaml.v3.Encoder).SetIndent", func(fr *frame, a []value) value {
		stubHit("yaml.Encoder.SetIndent (contract stub, precondition checked)")
		if conc(symBinop(token.LSS, nil, a[1], 0)).(bool) {
			panic(targetPanic{iface{fr.i.runtimeErrorString, "yaml: cannot indent to a negative number"}})
		}
		return nil
	})
	nilErr("(*encoding/xml.Encoder).Encode")
	nilErr("(*encoding/xml.Encoder).EncodeElement")
	nilErr("(*encoding/xml.Encoder).EncodeToken")
	nilErr("(*encoding/xml.Encoder).Flush")
	nilErr("(*encoding/xml.Encoder).Close")

	// ---- misc runtime-internal ----
	reg("sync.runtime_registerPoolCleanup", func(fr *frame, a []value) value { return nil })
	reg("time.Date", func(fr *frame, a []value) value {
		stubHit("time.Date (zero time)")
		return zero(fr.fn.Signature.Results().At(0).Type())
	})
	index := func(s, sub []value) int {
		n := len(sub)
		for i := 0; i+n <= len(s); i++ {
			eq := true
			for j := 0; j < n; j++ {
				if !conc(symBinopEq(s[i+j], sub[j])).(bool) {
					eq = false
					break
				}
			}
			if eq {
				return i
			}
		}
		return -1
	}
	reg("internal/bytealg.Index", func(fr *frame, a []value) value { return index(a[0].([]value), a[1].([]value)) })
	reg("internal/bytealg.IndexString", func(fr *frame, a []value) value { return index(strBytes(a[0]), strBytes(a[1])) })
	lastIndexByte := func(s []value, c value) int {
		for i := len(s) - 1; i >= 0; i-- {
			if conc(symBinopEq(s[i], c)).(bool) {
				return i
			}
		}
		return -1
	}
	reg("internal/bytealg.LastIndexByte", func(fr *frame, a []value) value { return lastIndexByte(a[0].([]value), a[1]) })
	reg("internal/bytealg.LastIndexByteString", func(fr *frame, a []value) value { return lastIndexByte(strBytes(a[0]), a[1]) })

	// ---- runtime ----
	reg("runtime.Callers", func(fr *frame, a []value) value { return 0 })
	reg("runtime.Caller", func(fr *frame, a []value) value { return tuple{uintptr(0), "", 0, false} })
	reg("runtime.Gosched", func(fr *frame, a []value) value {
		if ex.threads != nil {
			ex.threads.yield(fr)
		}
		return nil
	})

	// ---- errors ----
	reg("errors.Is", func(fr *frame, a []value) value { return errorsIs(fr, a[0].(iface), a[1].(iface)) })
	reg("errors.As", func(fr *frame, a []value) value { return errorsAs(fr, a[0].(iface), a[1].(iface)) })
	reg("errors.Unwrap", func(fr *frame, a []value) value {
		e := a[0].(iface)
		if e.t == nil {
			return iface{}
		}
		one, _, ok := errUnwrap(fr, e)
		if !ok {
			return iface{}
		}
		return one
	})

	// ---- fmt (contract stub: text is concrete where arguments are) ----
	reg("fmt.Sprintf", func(fr *frame, a []value) value {
		stubHit("fmt.Sprintf")
		return doSprintf(fr, concStr(a[0]).(string), a[1].([]value))
	})
	reg("fmt.Sprint", func(fr *frame, a []value) value { stubHit("fmt.Sprint"); return doSprint(fr, a[0].([]value), false) })
	reg("fmt.Sprintln", func(fr *frame, a []value) value { stubHit("fmt.Sprintln"); return doSprint(fr, a[0].([]value), true) })
	reg("fmt.Errorf", func(fr *frame, a []value) value {
		stubHit("fmt.Errorf")
		format := concStr(a[0]).(string)
		args := a[1].([]value)
		msg := doSprintf(fr, format, args)
		var wrapped value
		if strings.Contains(format, "%w") {
			for _, x := range args {
				if xi, ok := x.(iface); ok && isErrorType(xi.t) {
					wrapped = xi
					break
				}
			}
		}
		return mkError(fr, msg, wrapped)
	})
	reg("fmt.Fprintf", func(fr *frame, a []value) value {
		stubHit("fmt.Fprintf")
		return writeTo(fr, a[0], doSprintf(fr, concStr(a[1]).(string), a[2].([]value)))
	})
	reg("fmt.Fprint", func(fr *frame, a []value) value {
		stubHit("fmt.Fprint")
		return writeTo(fr, a[0], doSprint(fr, a[1].([]value), false))
	})
	reg("fmt.Fprintln", func(fr *frame, a []value) value {
		stubHit("fmt.Fprintln")
		return writeTo(fr, a[0], doSprint(fr, a[1].([]value), true))
	})
	reg("fmt.Printf", func(fr *frame, a []value) value { stubHit("fmt.Printf"); return tuple{0, iface{}} })
	reg("fmt.Println", func(fr *frame, a []value) value { stubHit("fmt.Println"); return tuple{0, iface{}} })
	reg("fmt.Print", func(fr *frame, a []value) value { stubHit("fmt.Print"); return tuple{0, iface{}} })
	reg("log.Printf", func(fr *frame, a []value) value { stubHit("log.Printf"); return nil })
	reg("log.Println", func(fr *frame, a []value) value { stubHit("log.Println"); return nil })

	// ---- sync ----
	lock := func(fr *frame, a []value) value {
		m := mutexOf(a[0].(*value))
		if ex.threads != nil {
			ex.threads.lock(fr, m)
			return nil
		}
		if m.locked {
			panic(engineAbort{"deadlock: sync.Mutex locked twice by the only thread"})
		}
		m.locked = true
		return nil
	}
	unlock := func(fr *frame, a []value) value {
		m := mutexOf(a[0].(*value))
		if !m.locked {
			panic(targetPanic{iface{fr.i.runtimeErrorString, "sync: unlock of unlocked mutex"}})
		}
		if ex.threads != nil {
			ex.threads.unlock(fr, m)
			return nil
		}
		m.locked = false
		return nil
	}
	reg("(*sync.Mutex).Lock", lock)
	reg("(*sync.Mutex).Unlock", unlock)
	reg("(*sync.Mutex).TryLock", func(fr *frame, a []value) value {
		m := mutexOf(a[0].(*value))
		if m.locked {
			return false
		}
		lock(fr, a)
		return true
	})
	reg("(*sync.RWMutex).Lock", func(fr *frame, a []value) value {
		m := mutexOf(a[0].(*value))
		if ex.threads != nil {
			ex.threads.wlock(fr, m)
			return nil
		}
		return lock(fr, a)
	})
	reg("(*sync.RWMutex).Unlock", unlock)
	reg("(*sync.RWMutex).RLock", func(fr *frame, a []value) value {
		m := mutexOf(a[0].(*value))
		if ex.threads != nil {
			ex.threads.rlock(fr, m)
			return nil
		}
		if m.locked {
			panic(engineAbort{"deadlock: RLock of write-locked RWMutex by the only thread"})
		}
		m.readers++
		return nil
	})
	reg("(*sync.RWMutex).RUnlock", func(fr *frame, a []value) value {
		m := mutexOf(a[0].(*value))
		if m.readers <= 0 {
			panic(targetPanic{iface{fr.i.runtimeErrorString, "sync: RUnlock of unlocked RWMutex"}})
		}
		if ex.threads != nil {
			ex.threads.runlock(fr, m)
			return nil
		}
		m.readers--
		return nil
	})
	reg("(*sync.Once).Do", func(fr *frame, a []value) value {
		p := a[0].(*value)
		if ex.threads != nil {
			ex.threads.once(fr, p, a[1])
			return nil
		}
		if onceDone[p] {
			return nil
		}
		onceDone[p] = true
		call(fr.i, fr, token.NoPos, a[1], nil)
		return nil
	})
	reg("(*sync.Pool).Get", func(fr *frame, a []value) value {
		st, t := recvStruct(fr, a)
		nf := st[fieldIndex(t, "New")]
		if f, ok := nf.(*ssa.Function); ok && f == nil {
			return iface{}
		}
		return call(fr.i, fr, token.NoPos, nf, nil)
	})
	reg("(*sync.Pool).Put", func(fr *frame, a []value) value { return nil })
	wgOf := func(p *value) *wgState {
		w := wgs[p]
		if w == nil {
			w = &wgState{}
			wgs[p] = w
		}
		return w
	}
	reg("(*sync.WaitGroup).Add", func(fr *frame, a []value) value {
		w := wgOf(a[0].(*value))
		w.n += asInt64(conc(a[1]))
		if ex.threads != nil && w.n <= 0 {
			ex.threads.wgRelease(fr, w)
		}
		return nil
	})
	reg("(*sync.WaitGroup).Done", func(fr *frame, a []value) value {
		w := wgOf(a[0].(*value))
		w.n--
		if ex.threads != nil {
			ex.threads.wgRelease(fr, w)
		}
		return nil
	})
	reg("(*sync.WaitGroup).Wait", func(fr *frame, a []value) value {
		w := wgOf(a[0].(*value))
		if ex.threads != nil {
			ex.threads.wgWait(fr, w)
			return nil
		}
		if w.n > 0 {
			panic(engineAbort{"deadlock: WaitGroup.Wait by the only thread"})
		}
		return nil
	})

	// ---- sync/atomic (sequentially consistent under the baton scheduler) ----
	for _, ty := range []string{"Int32", "Int64", "Uint32", "Uint64", "Uintptr", "Pointer"} {
		ty := ty
		reg("sync/atomic.Load"+ty, func(fr *frame, a []value) value { atomicPoint(fr, a[0], false); return *a[0].(*value) })
		reg("sync/atomic.Store"+ty, func(fr *frame, a []value) value { atomicPoint(fr, a[0], true); *a[0].(*value) = a[1]; return nil })
		reg("sync/atomic.Swap"+ty, func(fr *frame, a []value) value {
			atomicPoint(fr, a[0], true)
			p := a[0].(*value)
			old := *p
			*p = a[1]
			return old
		})
		reg("sync/atomic.CompareAndSwap"+ty, func(fr *frame, a []value) value {
			atomicPoint(fr, a[0], true)
			p := a[0].(*value)
			if conc(symBinopEq(*p, a[1])).(bool) {
				*p = a[2]
				return true
			}
			return false
		})
		if ty != "Pointer" {
			reg("sync/atomic.Add"+ty, func(fr *frame, a []value) value {
				atomicPoint(fr, a[0], true)
				p := a[0].(*value)
				*p = binop(token.ADD, nil, *p, a[1])
				return *p
			})
			reg("sync/atomic.And"+ty, func(fr *frame, a []value) value {
				atomicPoint(fr, a[0], true)
				p := a[0].(*value)
				old := *p
				*p = binop(token.AND, nil, *p, a[1])
				return old
			})
			reg("sync/atomic.Or"+ty, func(fr *frame, a []value) value {
				atomicPoint(fr, a[0], true)
				p := a[0].(*value)
				old := *p
				*p = binop(token.OR, nil, *p, a[1])
				return old
			})
		}
	}
	reg("(*sync/atomic.Value).Load", func(fr *frame, a []value) value {
		atomicPoint(fr, a[0], false)
		st := (*a[0].(*value)).(structure)
		return st[0]
	})
	reg("(*sync/atomic.Value).Store", func(fr *frame, a []value) value {
		atomicPoint(fr, a[0], true)
		st := (*a[0].(*value)).(structure)
		st[0] = a[1]
		return nil
	})
	// atomic.Pointer[T]: {_ [0]*T, _ noCopy, v unsafe.Pointer}; we keep a *value in field 2
	reg("(*sync/atomic.Pointer[T]).Load", func(fr *frame, a []value) value {
		atomicPoint(fr, a[0], false)
		st := (*a[0].(*value)).(structure)
		if p, ok := st[2].(*value); ok {
			return p
		}
		return (*value)(nil)
	})
	reg("(*sync/atomic.Pointer[T]).Store", func(fr *frame, a []value) value {
		atomicPoint(fr, a[0], true)
		st := (*a[0].(*value)).(structure)
		st[2] = a[1]
		return nil
	})
}

func atomicPoint(fr *frame, p value, write bool) {
	if ex.threads != nil {
		ex.threads.atomicAccess(fr, p.(*value), write)
	}
}

func symBinopEq(a, b value) value {
	if isSym(a) || isSym(b) {
		return symBinop(token.EQL, nil, a, b)
	}
	switch x := a.(type) {
	case *value:
		return x == b.(*value)
	}
	return equals(nil, a, b)
}

// ---- mapstruct.ToStruct: jq object -> option struct (reflection based in the
// real code: creasty/defaults + mitchellh/mapstructure). Implemented for the
// field kinds fq's option structs use: string, bool, int kinds, float64, any,
// nested structs and []string/[]any are left at their zero/default value when
// the input has another shape (reported as an error like mapstructure does).

func camelToSnake(s string) string {
	var sb strings.Builder
	rs := []rune(s)
	for i, r := range rs {
		sb.WriteRune(r)
		if i+1 < len(rs) && r >= 'a' && r <= 'z' && rs[i+1] >= 'A' && rs[i+1] <= 'Z' {
			sb.WriteByte('_')
		}
	}
	return strings.ToLower(sb.String())
}

func setDefaultFromTag(ft types.Type, tag string) (value, bool) {
	bk, ok := basicKindOf(ft)
	if !ok {
		return nil, false
	}
	switch {
	case bk == types.String:
		return tag, true
	case bk == types.Bool:
		return tag == "true", true
	case kindFloat(bk):
		var f float64
		fmt.Sscanf(tag, "%g", &f)
		return constOfKind(bk, math.Float64bits(f)), bk == types.Float64
	default:
		var n int64
		fmt.Sscanf(tag, "%d", &n)
		return constOfKind(bk, uint64(n)), true
	}
}

func structTagGet(tag, key string) (string, bool) {
	// minimal reflect.StructTag.Lookup
	for tag != "" {
		i := 0
		for i < len(tag) && tag[i] == ' ' {
			i++
		}
		tag = tag[i:]
		if tag == "" {
			break
		}
		i = 0
		for i < len(tag) && tag[i] != ':' && tag[i] != '"' && tag[i] != ' ' {
			i++
		}
		if i == 0 || i+1 >= len(tag) || tag[i] != ':' || tag[i+1] != '"' {
			break
		}
		name := tag[:i]
		tag = tag[i+1:]
		i = 1
		for i < len(tag) && tag[i] != '"' {
			if tag[i] == '\\' {
				i++
			}
			i++
		}
		if i >= len(tag) {
			break
		}
		q := tag[1:i]
		tag = tag[i+1:]
		if name == key {
			return q, true
		}
	}
	return "", false
}

func toStructValue(fr *frame, ft types.Type, in value) (value, string) {
	if ii, ok := in.(iface); ok {
		if _, isIface := ft.Underlying().(*types.Interface); isIface {
			return ii, ""
		}
		if ii.t == nil {
			return nil, "" // nil input leaves the field
		}
		in = ii.v
	}
	bk, isBasic := basicKindOf(ft)
	if !isBasic {
		if _, isIface := ft.Underlying().(*types.Interface); isIface {
			return in, ""
		}
		return nil, "unsupported field type " + ft.String()
	}
	ik, inScalar := kindOfValue(in)
	switch {
	case bk == types.String:
		switch in.(type) {
		case string, symStr:
			return in, ""
		}
		return nil, "expected type 'string'"
	case bk == types.Bool:
		if inScalar && ik == types.Bool {
			return in, ""
		}
		return nil, "expected type 'bool'"
	case kindFloat(bk):
		if inScalar && ik != types.Bool {
			if s, ok := in.(sym); ok {
				return symConvNum(bk, s), ""
			}
			return conv(ft, types.Typ[ik], in), ""
		}
		return nil, "expected type 'float'"
	default:
		if inScalar && ik != types.Bool {
			if s, ok := in.(sym); ok {
				return symConvNum(bk, s), ""
			}
			return conv(types.Typ[bk], types.Typ[ik], in), ""
		}
		return nil, "expected type 'int'"
	}
}

func init() {
	externals["github.com/wader/fq/internal/mapstruct.ToStruct"] = func(fr *frame, a []value) value {
		stubHit("mapstruct.ToStruct (engine implementation of the reflective option decoder)")
		target := a[1].(iface)
		pt, ok := target.t.Underlying().(*types.Pointer)
		if !ok {
			panic(unsupported{"mapstruct.ToStruct target " + target.t.String()})
		}
		st, ok := pt.Elem().Underlying().(*types.Struct)
		if !ok {
			panic(unsupported{"mapstruct.ToStruct target " + target.t.String()})
		}
		sv := (*target.v.(*value)).(structure)
		// defaults
		for i := 0; i < st.NumFields(); i++ {
			if d, ok := structTagGet(st.Tag(i), "default"); ok {
				if v, ok := setDefaultFromTag(st.Field(i).Type(), d); ok {
					sv[i] = v
				}
			}
		}
		m := a[0].(iface)
		if m.t == nil {
			return iface{}
		}
		mm, ok := m.v.(map[value]value)
		if !ok {
			return mkError(fr, "mapstruct: expected a map", nil)
		}
		for i := 0; i < st.NumFields(); i++ {
			f := st.Field(i)
			if !f.Exported() {
				continue
			}
			key := camelToSnake(f.Name())
			if t, ok := structTagGet(st.Tag(i), "mapstruct"); ok && t != "" {
				key = strings.Split(t, ",")[0]
			}
			in, ok := mm[key]
			if !ok {
				continue
			}
			v, errs := toStructValue(fr, f.Type(), in)
			if errs != "" {
				return mkError(fr, "mapstruct: '"+f.Name()+"' "+errs, nil)
			}
			if v != nil {
				sv[i] = v
			}
		}
		return iface{}
	}
}
