package interp

// Path exploration by deterministic re-execution with decision prefixes.

import (
	"fmt"
	"sort"
	"strings"
	"time"

	"golang.org/x/tools/go/ssa"
)

type Decision struct {
	Kind   byte  `json:"k"` // 'b' branch, 's' split, 'c' schedule
	Choice int64 `json:"c"`
}

type WorkItem struct {
	Prefix []Decision        `json:"prefix"`
	Model  map[string]uint64 `json:"model,omitempty"`
}

type Violation struct {
	Harness string            `json:"harness"`
	Kind    string            `json:"kind"` // "assert", "panic", "nonterm"
	Msg     string            `json:"msg"`
	Known   string            `json:"known,omitempty"` // known-finding id whose signature matched
	Model   map[string]uint64 `json:"model"`
	Inputs  []InputDesc       `json:"inputs"`
	Path    []Decision        `json:"path,omitempty"`
}

type InputDesc struct {
	Name string `json:"name"`
	W    int    `json:"w"`
	Sort int    `json:"sort"`
}

type CoverInfo struct {
	Reached  int `json:"reached"`  // paths on which the site was reached
	Witness  int `json:"witness"`  // paths on which cond was satisfiable
}

type Stats struct {
	Paths         int            `json:"paths"`
	PathsDone     int            `json:"paths_done"`
	PathsInfeas   int            `json:"paths_infeasible"`
	Branches      int            `json:"branches"`
	Splits        int            `json:"splits"`
	AssertQueries int            `json:"assert_queries"`
	Asserts       map[string]int `json:"asserts"` // msg -> times discharged unsat
	Covers        map[string]*CoverInfo `json:"covers"`
	Inconclusive  []string       `json:"inconclusive"`
	MaxSteps      int64          `json:"max_steps"`
	Steps         int64          `json:"steps"`
	Funcs         map[string]int `json:"funcs"`
	Stubs         map[string]int `json:"stubs"`
	Assumes       map[string]int `json:"assumes"`
	Observes      []string       `json:"observes,omitempty"`
	Samples       []Sample       `json:"samples,omitempty"`
}

type Sample struct {
	Model     map[string]uint64 `json:"model"`
	Decisions int               `json:"decisions"`
	Outcome   string            `json:"outcome"`
}

type pathEnd struct{ why string }         // path stops (infeasible assume, budget…)
type unsupported struct{ what string }    // engine cannot handle → inconclusive

type Explorer struct {
	solver   *Solver
	prefix   []Decision
	pos      int
	path     []Decision
	pc       []*Term
	model    *Model
	work     []WorkItem
	stats    Stats
	viol     []Violation
	harness  string
	inputs   []InputDesc
	inputSet map[string]bool
	nameCnt  map[string]int
	steps    int64
	maxSteps int64
	splitMax int
	concrete map[string]uint64 // non-nil: concrete mode (inputs come from here)
	symbolic bool
	deadline time.Time
	trace    []string
	violSeen map[string]bool
	maxViol  int
	threads  *sched
	known    map[*Term]*Term // term -> constant implied by an equality on the path
	curFr    *frame
	curInstr ssa.Instruction
	byteSets    map[*Term]*byteSet
	complexVars map[*Term]bool
	ByteDecided int
}

// where describes the target-program location being executed.
func (e *Explorer) whereFn() string {
	if e.curFr == nil || e.curFr.fn == nil {
		return "?"
	}
	return e.curFr.fn.String()
}

func (e *Explorer) where() string {
	if e.curFr == nil || e.curFr.fn == nil {
		return "?"
	}
	s := e.curFr.fn.String()
	if e.curInstr != nil && e.curInstr.Pos().IsValid() {
		p := e.curFr.fn.Prog.Fset.Position(e.curInstr.Pos())
		s += fmt.Sprintf(" (%s:%d)", p.Filename[strings.LastIndex(p.Filename, "/")+1:], p.Line)
	}
	if c := e.curFr.caller; c != nil && c.fn != nil {
		s += " <- " + c.fn.String()
	}
	return s
}

var ex *Explorer

func (e *Explorer) inconclusive(why string) {
	for _, w := range e.stats.Inconclusive {
		if w == why {
			return
		}
	}
	if len(e.stats.Inconclusive) < 50 {
		e.stats.Inconclusive = append(e.stats.Inconclusive, why)
	}
}

func (e *Explorer) beginPath(item WorkItem) {
	e.prefix = item.Prefix
	e.pos = 0
	e.path = e.path[:0]
	e.pc = e.pc[:0]
	e.model = NewModel(item.Model)
	e.inputs = e.inputs[:0]
	e.inputSet = map[string]bool{}
	e.nameCnt = map[string]int{}
	e.steps = 0
	e.known = map[*Term]*Term{}
	e.byteSets = map[*Term]*byteSet{}
	e.complexVars = map[*Term]bool{}
	e.trace = e.trace[:0]
	if e.solver != nil {
		e.solver.Pop(e.solver.depth)
		e.solver.Push()
	}
}

func (e *Explorer) addPC(t *Term) {
	if t.IsTrue() {
		return
	}
	if t.Op == OEq && t.B != nil && t.B.IsConst() && !t.A.IsConst() && t.A.Sort == SBV {
		e.known[t.A] = t.B
	} else if t.Op == OEq && t.A != nil && t.A.IsConst() && !t.B.IsConst() && t.B.Sort == SBV {
		e.known[t.B] = t.A
	}
	e.pc = append(e.pc, t)
	e.noteConjunct(t)
	if e.solver != nil {
		e.solver.Assert(t)
	}
}

// evalBool evaluates a boolean term in the current model; ok=false if not computable.
func (e *Explorer) evalBool(t *Term) (bool, bool) {
	v, ok := e.model.TryEval(t)
	return v != 0, ok
}

func (e *Explorer) setModel(m map[string]uint64) {
	e.model = NewModel(m)
}

func clonePath(p []Decision, extra Decision) []Decision {
	n := make([]Decision, len(p)+1)
	copy(n, p)
	n[len(p)] = extra
	return n
}

// Branch decides a symbolic boolean; returns the side taken.
func (e *Explorer) Branch(cond *Term) bool {
	if cond.IsConst() {
		return cond.K == 1
	}
	if e.concrete != nil {
		v, ok := e.evalBool(cond)
		if !ok {
			panic(unsupported{"concrete mode: cannot evaluate condition"})
		}
		return v
	}
	e.stats.Branches++
	if e.pos < len(e.prefix) {
		d := e.prefix[e.pos]
		e.pos++
		if d.Kind != 'b' {
			panic(fmt.Sprintf("engine: non-deterministic replay (expected %c, got branch) at decision %d", d.Kind, e.pos-1))
		}
		e.path = append(e.path, d)
		if d.Choice == 1 {
			e.addPC(cond)
			return true
		}
		e.addPC(Not(cond))
		return false
	}
	if canT, canF, bv, tv, fv, okb := e.byteBranch(cond); okb {
		// exact: the variable occurs only in simple conjuncts
		e.stats.Assumes["branches decided by the byte-set domain (no solver query)"]++
		cur, okc := e.evalBool(cond)
		if !okc || (cur && !canT) || (!cur && !canF) {
			cur = canT
		}
		withVal := func(val uint64) map[string]uint64 {
			m := make(map[string]uint64, len(e.model.vals)+1)
			for k, x := range e.model.vals {
				m[k] = x
			}
			m[bv.Name] = val
			return m
		}
		if cur && canF {
			e.work = append(e.work, WorkItem{Prefix: clonePath(e.path, Decision{'b', 0}), Model: withVal(fv)})
		} else if !cur && canT {
			e.work = append(e.work, WorkItem{Prefix: clonePath(e.path, Decision{'b', 1}), Model: withVal(tv)})
		}
		if cur {
			if got, _ := e.model.TryEval(cond); got == 0 {
				e.setModel(withVal(tv))
			}
			e.path = append(e.path, Decision{'b', 1})
			e.addPC(cond)
		} else {
			if got, _ := e.model.TryEval(cond); got != 0 {
				e.setModel(withVal(fv))
			}
			e.path = append(e.path, Decision{'b', 0})
			e.addPC(Not(cond))
		}
		return cur
	}
	v, ok := e.evalBool(cond)
	if !ok {
		// model cannot decide: ask the solver for the true side first
		r, m := e.solver.Check(cond)
		switch r {
		case Sat:
			e.setModel(m)
			v = true
		case Unsat:
			v = false
			// pc is satisfiable, so the false side is; need a model for it
			r2, m2 := e.solver.Check(Not(cond))
			if r2 != Sat {
				e.inconclusive("solver unknown at branch")
				panic(pathEnd{"unknown"})
			}
			e.setModel(m2)
			e.path = append(e.path, Decision{'b', 0})
			e.addPC(Not(cond))
			return false
		default:
			e.inconclusive("solver unknown at branch")
			panic(pathEnd{"unknown"})
		}
	}
	other := Not(cond)
	if !v {
		other = cond
	}
	e.stats.Assumes["q:branch at "+e.whereFn()]++
	r, m := e.solver.Check(other)
	switch r {
	case Sat:
		oc := int64(0)
		if !v {
			oc = 1
		}
		e.work = append(e.work, WorkItem{Prefix: clonePath(e.path, Decision{'b', oc}), Model: m})
	case Unknown:
		e.inconclusive("solver unknown at branch (other side dropped)")
	}
	if v {
		e.path = append(e.path, Decision{'b', 1})
		e.addPC(cond)
	} else {
		e.path = append(e.path, Decision{'b', 0})
		e.addPC(Not(cond))
	}
	return v
}

// Split concretises t (a bit-vector) by enumerating its feasible values.
func (e *Explorer) Split(t *Term) uint64 { return e.SplitN(t, e.splitMax) }

// SplitN is Split with an explicit bound on the number of values.
func (e *Explorer) SplitN(t *Term, splitMax int) uint64 {
	if t.IsConst() {
		return t.K
	}
	if e.concrete != nil {
		v, ok := e.model.TryEval(t)
		if !ok {
			panic(unsupported{"concrete mode: cannot evaluate"})
		}
		return v
	}
	e.stats.Splits++
	if e.pos < len(e.prefix) {
		d := e.prefix[e.pos]
		e.pos++
		if d.Kind != 's' {
			panic(fmt.Sprintf("engine: non-deterministic replay (expected %c, got split) at decision %d", d.Kind, e.pos-1))
		}
		e.path = append(e.path, d)
		c := BV(uint64(d.Choice), t.W)
		e.addPC(Cmp(OEq, t, c))
		return c.K
	}
	v0, ok := e.model.TryEval(t)
	if !ok {
		r, m := e.solver.Check()
		if r != Sat {
			e.inconclusive("solver unknown at split")
			panic(pathEnd{"unknown"})
		}
		e.setModel(m)
		v0, ok = e.model.TryEval(t)
		if !ok {
			panic(unsupported{"cannot evaluate split term"})
		}
	}
	// enumerate the other values
	excl := []*Term{Not(Cmp(OEq, t, BV(v0, t.W)))}
	for n := 0; ; n++ {
		if n >= splitMax {
			e.inconclusive(fmt.Sprintf("split domain larger than %d at %s", splitMax, e.where()))
			break
		}
		r, m := e.solver.Check(excl...)
		if r == Unsat {
			break
		}
		if r == Unknown {
			e.inconclusive("solver unknown at split")
			break
		}
		mm := NewModel(m)
		vi, ok := mm.TryEval(t)
		if !ok {
			e.inconclusive("cannot evaluate split term")
			break
		}
		e.work = append(e.work, WorkItem{Prefix: clonePath(e.path, Decision{'s', int64(vi)}), Model: m})
		excl = append(excl, Not(Cmp(OEq, t, BV(vi, t.W))))
	}
	e.path = append(e.path, Decision{'s', int64(v0)})
	e.addPC(Cmp(OEq, t, BV(v0, t.W)))
	return v0
}

// SplitFresh case-splits a fresh (otherwise unconstrained) variable over
// lo..hi without consulting the solver: every value is feasible because the
// path condition does not mention the variable yet.
func (e *Explorer) SplitFresh(v *Term, lo, hi int64) int64 {
	if v.IsConst() { // concrete mode
		return sext64(v.K, v.W)
	}
	e.stats.Splits++
	if e.pos < len(e.prefix) {
		d := e.prefix[e.pos]
		e.pos++
		if d.Kind != 's' {
			panic(fmt.Sprintf("engine: non-deterministic replay (expected %c, got split) at decision %d", d.Kind, e.pos-1))
		}
		e.path = append(e.path, d)
		e.addPC(Cmp(OEq, v, BV(uint64(d.Choice), v.W)))
		return d.Choice
	}
	base := e.model.vals
	for val := hi; val > lo; val-- {
		m := make(map[string]uint64, len(base)+1)
		for k, x := range base {
			m[k] = x
		}
		m[v.Name] = uint64(val) & mask(v.W)
		e.work = append(e.work, WorkItem{Prefix: clonePath(e.path, Decision{'s', val}), Model: m})
	}
	m := make(map[string]uint64, len(base)+1)
	for k, x := range base {
		m[k] = x
	}
	m[v.Name] = uint64(lo) & mask(v.W)
	e.setModel(m)
	e.path = append(e.path, Decision{'s', lo})
	e.addPC(Cmp(OEq, v, BV(uint64(lo), v.W)))
	return lo
}

// Assume adds cond to the path condition; ends the path if infeasible.
func (e *Explorer) Assume(cond *Term) {
	if cond.IsTrue() {
		return
	}
	if cond.IsFalse() {
		panic(pathEnd{"assume false"})
	}
	if e.concrete != nil {
		v, _ := e.evalBool(cond)
		if !v {
			panic(pathEnd{"assume false (concrete)"})
		}
		return
	}
	v, ok := e.evalBool(cond)
	if ok && v {
		e.addPC(cond)
		return
	}
	if e.pos < len(e.prefix) {
		// replaying: the stored model satisfies the whole prefix; if it does not
		// satisfy this assume the solver decides
	}
	r, m := e.solver.Check(cond)
	switch r {
	case Sat:
		e.setModel(m)
		e.addPC(cond)
	case Unsat:
		panic(pathEnd{"assume infeasible"})
	default:
		e.inconclusive("solver unknown at assume")
		panic(pathEnd{"unknown"})
	}
}

func (e *Explorer) modelSnapshot() map[string]uint64 {
	m := map[string]uint64{}
	for _, in := range e.inputs {
		m[in.Name] = e.model.vals[in.Name]
	}
	return m
}

func (e *Explorer) recordViolation(kind, msg, known string, model map[string]uint64) {
	key := kind + "|" + msg + "|" + known
	if e.violSeen[key] && len(e.viol) >= 1 {
		// keep one counterexample per distinct site/message
		return
	}
	e.violSeen[key] = true
	if len(e.viol) >= e.maxViol {
		return
	}
	mm := map[string]uint64{}
	for _, in := range e.inputs {
		mm[in.Name] = model[in.Name]
	}
	e.viol = append(e.viol, Violation{Harness: e.harness, Kind: kind, Msg: msg, Known: known, Model: mm,
		Inputs: append([]InputDesc(nil), e.inputs...), Path: append([]Decision(nil), e.path...)})
}

// Assert checks cond on the current path; sig is the disjunction of
// known-finding signatures (nil if none) and knownID its id.
func (e *Explorer) Assert(cond *Term, msg string, knownID string, sig *Term) {
	e.stats.AssertQueries++
	if e.concrete != nil {
		v, ok := e.evalBool(cond)
		if ok && !v {
			e.recordViolation("assert", msg, "", e.model.vals)
		}
		return
	}
	if cond.IsTrue() {
		e.stats.Asserts[msg]++
		return
	}
	neg := Not(cond)
	if sig != nil && !sig.IsFalse() {
		// known-finding class first: ¬cond ∧ sig
		r, m := e.solver.Check(neg, sig)
		if r == Sat {
			e.recordViolation("assert", msg, knownID, m)
		} else if r == Unknown {
			e.inconclusive("solver unknown at assert: " + msg)
		}
		neg = And(neg, Not(sig))
	}
	r, m := e.solver.Check(neg)
	switch r {
	case Sat:
		e.recordViolation("assert", msg, "", m)
	case Unsat:
		e.stats.Asserts[msg]++
	default:
		e.inconclusive("solver unknown at assert: " + msg)
	}
	// continue under the assumption that the assertion holds
	e.Assume(cond)
}

func (e *Explorer) Cover(label string, cond *Term) {
	ci := e.stats.Covers[label]
	if ci == nil {
		ci = &CoverInfo{}
		e.stats.Covers[label] = ci
	}
	ci.Reached++
	if ci.Witness > 0 && e.concrete == nil {
		return // one witness is enough
	}
	if cond.IsFalse() {
		return
	}
	if cond.IsTrue() {
		ci.Witness++
		return
	}
	if v, ok := e.evalBool(cond); ok && v {
		ci.Witness++
		return
	}
	if e.concrete != nil {
		return
	}
	if r, _ := e.solver.Check(cond); r == Sat {
		ci.Witness++
	}
}

func (e *Explorer) uniqueName(name string) string {
	n := e.nameCnt[name]
	e.nameCnt[name] = n + 1
	if n == 0 {
		return name
	}
	return fmt.Sprintf("%s#%d", name, n)
}

func (e *Explorer) input(name string, sort Sort, w uint8) *Term {
	name = e.uniqueName(name)
	if !e.inputSet[name] {
		e.inputSet[name] = true
		e.inputs = append(e.inputs, InputDesc{Name: name, W: int(w), Sort: int(sort)})
	}
	if e.concrete != nil {
		v := e.concrete[name]
		switch sort {
		case SBool:
			return BoolT(v != 0)
		case SBV:
			return BV(v, w)
		default:
			return FPConst(v, sort)
		}
	}
	return Var(name, sort, w)
}

func sortedKeys(m map[string]int) []string {
	var ks []string
	for k := range m {
		ks = append(ks, k)
	}
	sort.Strings(ks)
	return ks
}

func fmtPath(p []Decision) string {
	var sb strings.Builder
	for _, d := range p {
		fmt.Fprintf(&sb, "%c%d ", d.Kind, d.Choice)
	}
	return sb.String()
}


func dbgTerm(t *Term, d int) string {
	if t == nil {
		return ""
	}
	if t.Op == OConst {
		return fmt.Sprintf("%d", t.K)
	}
	if t.Op == OVar {
		return t.Name
	}
	if d == 0 {
		return "…"
	}
	return fmt.Sprintf("(op%d %s %s %s)", t.Op, dbgTerm(t.A, d-1), dbgTerm(t.B, d-1), dbgTerm(t.C, d-1))
}
