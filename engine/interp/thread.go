package interp

// Goroutines, channels, select and a deterministic baton scheduler.
//
// Interpreter threads are host goroutines of which exactly one runs at a time
// (the baton is passed through per-thread channels). The choice of the next
// thread at a scheduling point is an exploration decision (kind 'c'), so every
// schedule within the pre-emption bound is explored by re-execution like any
// other case split. A vector-clock happens-before detector flags conflicting
// unordered accesses to heap cells made by functions of the watched packages.
//
// The scheduler is switched on by the harness (vrt.Threads); without it a `go`
// statement is unsupported and channel operations must not block.

import (
	"fmt"
	"go/token"
	"go/types"
	"strings"

	"golang.org/x/tools/go/ssa"
)

type vclock map[int]int

func (v vclock) copy() vclock {
	n := make(vclock, len(v))
	for k, x := range v {
		n[k] = x
	}
	return n
}

func (v vclock) join(o vclock) {
	for k, x := range o {
		if x > v[k] {
			v[k] = x
		}
	}
}

// leq: every component of v is <= o (v happened before or equals o)
func (v vclock) leq(o vclock) bool {
	for k, x := range v {
		if x > o[k] {
			return false
		}
	}
	return true
}

type thread struct {
	id      int
	resume  chan struct{}
	exited  chan struct{}
	done    bool
	blocked func() bool // nil: runnable; else true when the thread may proceed
	vc      vclock
	what    string
}

type cellInfo struct {
	wTid  int
	wClk  vclock
	wAt   string
	reads map[int]vclock
	rAt   map[int]string
}

type sched struct {
	threads  []*thread
	cur      *thread
	preempt  int
	maxPre   int
	aborting bool
	failure  interface{}
	watch    []string
	cells    map[*value]*cellInfo
	points   int
	switches int
}

func newSched() *sched { return nil }

func startSched(maxPre int, watch []string) *sched {
	s := &sched{maxPre: maxPre, watch: watch, cells: map[*value]*cellInfo{}}
	main := &thread{id: 0, resume: make(chan struct{}, 1), exited: make(chan struct{}), vc: vclock{0: 1}, what: "main"}
	s.threads = []*thread{main}
	s.cur = main
	return s
}

func (s *sched) watched(fn *ssa.Function) bool {
	if fn == nil || fn.Pkg == nil {
		if fn != nil && fn.Parent() != nil {
			return s.watched(fn.Parent())
		}
		if fn != nil && fn.Origin() != nil && fn.Origin() != fn {
			return s.watched(fn.Origin()) // instantiation of a generic function
		}
		return false
	}
	p := fn.Pkg.Pkg.Path()
	for _, w := range s.watch {
		if strings.HasSuffix(p, w) {
			return true
		}
	}
	return false
}

func (s *sched) runnable() []*thread {
	var rs []*thread
	for _, t := range s.threads {
		if t.done {
			continue
		}
		if t.blocked == nil || t.blocked() {
			rs = append(rs, t)
		}
	}
	return rs
}

// choose is an exploration decision among n alternatives (no solver involved).
func (e *Explorer) choose(n int) int {
	if n <= 1 {
		return 0
	}
	e.stats.Splits++
	if e.pos < len(e.prefix) {
		d := e.prefix[e.pos]
		e.pos++
		if d.Kind != 'c' {
			panic(fmt.Sprintf("engine: non-deterministic replay (expected %c, got schedule) at decision %d", d.Kind, e.pos-1))
		}
		e.path = append(e.path, d)
		return int(d.Choice)
	}
	for c := n - 1; c >= 1; c-- {
		e.work = append(e.work, WorkItem{Prefix: clonePath(e.path, Decision{'c', int64(c)}), Model: e.model.vals})
	}
	e.path = append(e.path, Decision{'c', 0})
	return 0
}

// switchTo hands the baton to t and waits until it comes back.
func (s *sched) switchTo(t *thread) {
	me := s.cur
	if t == me {
		return
	}
	s.switches++
	s.cur = t
	// (nothing of the shared state may be read between handing the baton over
	// and getting it back: the other thread runs from here on)
	t.resume <- struct{}{}
	<-me.resume
	if s.aborting && me.id != 0 {
		panic(engineAbort{"thread torn down at the end of the path"})
	}
	if me.id == 0 && s.failure != nil {
		f := s.failure
		s.failure = nil
		panic(f)
	}
}

// point is a scheduling point of the running thread: it may be pre-empted.
func (s *sched) point(fr *frame) {
	if s.aborting {
		return // deferred calls of a thread that is being torn down
	}
	s.points++
	if s.preempt >= s.maxPre {
		return
	}
	rs := s.runnable()
	if len(rs) <= 1 {
		return
	}
	// alternatives: continue (0), or one of the other runnable threads
	var others []*thread
	for _, t := range rs {
		if t != s.cur {
			others = append(others, t)
		}
	}
	c := ex.choose(1 + len(others))
	if c == 0 {
		return
	}
	s.preempt++
	s.switchTo(others[c-1])
}

func (s *sched) yield(fr *frame) { s.point(fr) }

// block suspends the running thread until cond holds.
func (s *sched) block(what string, cond func() bool) {
	if s.aborting {
		if cond() {
			return
		}
		panic(engineAbort{"thread torn down at the end of the path"})
	}
	me := s.cur
	for !cond() {
		if s.aborting {
			panic(engineAbort{"thread torn down at the end of the path"})
		}
		me.blocked = cond
		me.what = what
		var rs []*thread
		for _, t := range s.runnable() {
			if t != me {
				rs = append(rs, t)
			}
		}
		if len(rs) == 0 {
			me.blocked = nil
			if me.id == 0 {
				panic(engineAbort{"deadlock: all goroutines are asleep (main blocked in " + what + ")"})
			}
			// a non-main thread blocked forever while nothing else can run: hand back to main if it is waiting
			panic(engineAbort{"deadlock: goroutine blocked forever in " + what})
		}
		c := ex.choose(len(rs))
		s.switchTo(rs[c])
	}
	me.blocked = nil
}

func (s *sched) tick() {
	if !s.aborting {
		s.cur.vc[s.cur.id]++
	}
}

func (s *sched) lock(fr *frame, m *mutexState) {
	s.point(fr)
	s.block("sync.Mutex.Lock", func() bool { return !m.locked })
	m.locked = true
	m.owner = s.cur
	if m.rel != nil {
		s.cur.vc.join(m.rel)
	}
	s.tick()
}

func (s *sched) unlock(fr *frame, m *mutexState) {
	m.locked = false
	m.rel = s.cur.vc.copy()
	s.tick()
	s.point(fr)
}

// readers/writer lock: readers do not synchronise with each other, only with writers
func (s *sched) rlock(fr *frame, m *mutexState) {
	s.point(fr)
	s.block("sync.RWMutex.RLock", func() bool { return !m.locked })
	m.readers++
	if m.rel != nil {
		s.cur.vc.join(m.rel)
	}
	s.tick()
}

func (s *sched) runlock(fr *frame, m *mutexState) {
	m.readers--
	if m.rrel == nil {
		m.rrel = s.cur.vc.copy()
	} else {
		m.rrel.join(s.cur.vc)
	}
	s.tick()
	s.point(fr)
}

func (s *sched) wlock(fr *frame, m *mutexState) {
	s.point(fr)
	s.block("sync.RWMutex.Lock", func() bool { return !m.locked && m.readers == 0 })
	m.locked = true
	m.owner = s.cur
	if m.rel != nil {
		s.cur.vc.join(m.rel)
	}
	if m.rrel != nil {
		s.cur.vc.join(m.rrel)
	}
	s.tick()
}

// sync.Once: the first caller runs f, the others wait for it; f's completion
// happens before every return of Do
func (s *sched) once(fr *frame, p *value, f value) {
	o := onces[p]
	if o == nil {
		o = &onceState{}
		onces[p] = o
	}
	s.point(fr)
	if !o.done && !o.running {
		o.running = true
		call(fr.i, fr, token.NoPos, f, nil)
		o.done = true
		o.clock = s.cur.vc.copy()
		s.tick()
		s.point(fr)
		return
	}
	s.block("sync.Once.Do", func() bool { return o.done })
	s.cur.vc.join(o.clock)
	s.tick()
}

func (s *sched) wgRelease(fr *frame, w *wgState) {
	if w.clock == nil {
		w.clock = s.cur.vc.copy()
	} else {
		w.clock.join(s.cur.vc)
	}
	s.tick()
	s.point(fr)
}

func (s *sched) wgWait(fr *frame, w *wgState) {
	s.point(fr)
	s.block("sync.WaitGroup.Wait", func() bool { return w.n <= 0 })
	if w.clock != nil {
		s.cur.vc.join(w.clock)
	}
	s.tick()
}

var atomicClocks = map[*value]vclock{}

func (s *sched) atomicAccess(fr *frame, p *value, write bool) {
	if s.aborting {
		return
	}
	s.point(fr)
	// atomic operations on one cell are totally ordered and synchronise
	if c := atomicClocks[p]; c != nil {
		s.cur.vc.join(c)
	}
	atomicClocks[p] = s.cur.vc.copy()
	s.tick()
}

func posOf(fr *frame) string {
	if fr == nil || fr.fn == nil {
		return "?"
	}
	if ex.curInstr != nil && ex.curInstr.Pos().IsValid() {
		p := fr.fn.Prog.Fset.Position(ex.curInstr.Pos())
		return fmt.Sprintf("%s (%s:%d)", fr.fn.String(), p.Filename[strings.LastIndex(p.Filename, "/")+1:], p.Line)
	}
	return fr.fn.String()
}

// access is called for loads and stores of heap cells; for functions of the
// watched packages it is a scheduling point and is checked for data races.
func (s *sched) access(fr *frame, p *value, write bool) {
	if s.aborting || !s.watched(fr.fn) {
		return
	}
	s.point(fr)
	me := s.cur
	ci := s.cells[p]
	if ci == nil {
		ci = &cellInfo{wTid: -1, reads: map[int]vclock{}, rAt: map[int]string{}}
		s.cells[p] = ci
	}
	at := posOf(fr)
	if ci.wTid >= 0 && ci.wTid != me.id && !ci.wClk.leq(me.vc) {
		kind := "read"
		if write {
			kind = "write"
		}
		ex.recordViolation("race", fmt.Sprintf("data race: %s at %s is not ordered after the write at %s", kind, at, ci.wAt), "", ex.model.vals)
	}
	if write {
		for tid, rc := range ci.reads {
			if tid != me.id && !rc.leq(me.vc) {
				ex.recordViolation("race", fmt.Sprintf("data race: write at %s is not ordered after the read at %s", at, ci.rAt[tid]), "", ex.model.vals)
			}
		}
		ci.wTid, ci.wClk, ci.wAt = me.id, me.vc.copy(), at
		ci.reads = map[int]vclock{}
		ci.rAt = map[int]string{}
	} else {
		ci.reads[me.id] = me.vc.copy()
		ci.rAt[me.id] = at
	}
}

func goStmt(fr *frame, instr *ssa.Go, fn value, args []value) {
	s := ex.threads
	if s == nil {
		panic(unsupported{"go statement (scheduler not enabled by the harness)"})
	}
	parent := s.cur
	t := &thread{id: len(s.threads), resume: make(chan struct{}, 1), exited: make(chan struct{}), vc: parent.vc.copy(), what: "go"}
	t.vc[t.id] = 1
	s.threads = append(s.threads, t)
	s.tick()
	i := fr.i
	go func() {
		defer close(t.exited)
		<-t.resume
		if s.aborting {
			return
		}
		func() {
			defer func() {
				if r := recover(); r != nil {
					switch p := r.(type) {
					case engineAbort:
						if strings.HasPrefix(p.why, "thread torn down") {
							return
						}
						s.failure = r
					default:
						s.failure = r
					}
				}
			}()
			root := &frame{i: i, thread: t}
			call(i, root, instr.Pos(), fn, args)
		}()
		t.done = true
		if s.aborting {
			return
		}
		if s.failure != nil {
			// abort the path: give the baton to main, which re-raises the failure
			s.cur = s.threads[0]
			s.threads[0].blocked = nil
			s.threads[0].resume <- struct{}{}
			return
		}
		// pick the next thread to run
		rs := s.runnable()
		if len(rs) == 0 {
			// everything else is blocked: main must be among the blocked threads
			s.failure = engineAbort{"deadlock: all goroutines are asleep"}
			s.cur = s.threads[0]
			s.threads[0].resume <- struct{}{}
			return
		}
		c := ex.choose(len(rs))
		s.cur = rs[c]
		rs[c].resume <- struct{}{}
	}()
	s.point(fr)
}

// teardown ends all threads that are still alive at the end of a path.
func (s *sched) teardown() {
	s.aborting = true
	for _, t := range s.threads[1:] {
		if t.done {
			<-t.exited
			continue
		}
		t.done = true
		s.cur = t // (its deferred calls run on its own goroutine, one thread at a time)
		select {
		case t.resume <- struct{}{}:
		default:
		}
		<-t.exited
	}
}

// ---- channels -----------------------------------------------------------------------

type ichan struct {
	buf    []value
	clocks []vclock
	cap    int
	closed bool
	cclock vclock
	taken  int // number of values received (rendezvous for unbuffered channels)
	sent   int
}

func makeChan(n int64) value { return &ichan{cap: int(n)} }

func (c *ichan) canSend() bool {
	if c.closed {
		return true // will panic
	}
	if c.cap == 0 {
		return len(c.buf) == 0
	}
	return len(c.buf) < c.cap
}

func (c *ichan) canRecv() bool { return len(c.buf) > 0 || c.closed }

func asIchan(ch value) *ichan {
	switch c := ch.(type) {
	case *ichan:
		return c
	case chan value:
		if c == nil {
			return nil
		}
	}
	panic(unsupported{fmt.Sprintf("channel of kind %T", ch)})
}

func (c *ichan) push(v value) {
	c.buf = append(c.buf, v)
	var vc vclock
	if s := ex.threads; s != nil {
		vc = s.cur.vc.copy()
		s.tick()
	}
	c.clocks = append(c.clocks, vc)
	c.sent++
}

func (c *ichan) pop(zero func() value) (value, bool) {
	if len(c.buf) > 0 {
		v := c.buf[0]
		vc := c.clocks[0]
		c.buf = c.buf[1:]
		c.clocks = c.clocks[1:]
		c.taken++
		if s := ex.threads; s != nil {
			if vc != nil {
				s.cur.vc.join(vc)
			}
			s.tick()
		}
		return v, true
	}
	// closed and empty
	if s := ex.threads; s != nil && c.cclock != nil {
		s.cur.vc.join(c.cclock)
		s.tick()
	}
	return zero(), false
}

func chanSend(fr *frame, ch value, v value) {
	c := asIchan(ch)
	s := ex.threads
	if c == nil {
		if s == nil {
			panic(engineAbort{"deadlock: send on nil channel"})
		}
		s.block("send on nil channel", func() bool { return false })
	}
	if s == nil {
		if c.closed {
			panic(targetPanic{"send on closed channel"})
		}
		if c.cap == 0 || len(c.buf) >= c.cap {
			panic(unsupported{"blocking channel send without scheduler"})
		}
		c.push(v)
		return
	}
	s.point(fr)
	s.block("channel send", c.canSend)
	if c.closed {
		panic(runtimeError{"send on closed channel"})
	}
	c.push(v)
	if c.cap == 0 {
		// rendezvous: wait until a receiver has taken the value
		n := c.sent
		s.block("channel send (rendezvous)", func() bool { return c.taken >= n || c.closed })
	}
}

func chanRecv(fr *frame, instr *ssa.UnOp, ch value) value {
	c := asIchan(ch)
	s := ex.threads
	zero := func() value { return zero(instr.X.Type().Underlying().(*types.Chan).Elem()) }
	if c == nil {
		if s == nil {
			panic(engineAbort{"deadlock: receive from nil channel"})
		}
		s.block("receive from nil channel", func() bool { return false })
	}
	if s == nil {
		if !c.canRecv() {
			panic(unsupported{"blocking channel receive without scheduler"})
		}
	} else {
		s.point(fr)
		s.block("channel receive", c.canRecv)
	}
	v, ok := c.pop(zero)
	if instr.CommaOk {
		return tuple{v, ok}
	}
	return v
}

func chanClose(ch value) {
	c := asIchan(ch)
	if c == nil {
		panic(runtimeError{"close of nil channel"})
	}
	if c.closed {
		panic(runtimeError{"close of closed channel"})
	}
	c.closed = true
	if s := ex.threads; s != nil {
		c.cclock = s.cur.vc.copy()
		s.tick()
	}
}

func doSelect(fr *frame, instr *ssa.Select) value {
	s := ex.threads
	type sc struct {
		c    *ichan
		send bool
		v    value
		elem types.Type
	}
	var cases []sc
	for _, st := range instr.States {
		c := asIchan(fr.get(st.Chan))
		x := sc{c: c, send: st.Dir == types.SendOnly, elem: st.Chan.Type().Underlying().(*types.Chan).Elem()}
		if st.Send != nil {
			x.v = fr.get(st.Send)
		}
		cases = append(cases, x)
	}
	ready := func() []int {
		var r []int
		for i, x := range cases {
			if x.c == nil {
				continue
			}
			if x.send && x.c.canSend() || !x.send && x.c.canRecv() {
				r = append(r, i)
			}
		}
		return r
	}
	if s != nil {
		s.point(fr)
	}
	r := ready()
	if len(r) == 0 {
		if !instr.Blocking {
			res := tuple{-1, false}
			for _, x := range cases {
				if !x.send {
					res = append(res, zero(x.elem))
				}
			}
			return res
		}
		if s == nil {
			panic(unsupported{"blocking select without scheduler"})
		}
		s.block("select", func() bool { return len(ready()) > 0 })
		r = ready()
	}
	chosen := r[0]
	if len(r) > 1 {
		chosen = r[ex.choose(len(r))]
	}
	x := cases[chosen]
	var recv value
	recvOk := false
	if x.send {
		if x.c.closed {
			panic(runtimeError{"send on closed channel"})
		}
		x.c.push(x.v)
	} else {
		recv, recvOk = x.c.pop(func() value { return zero(x.elem) })
	}
	res := tuple{chosen, recvOk}
	for i, y := range cases {
		if !y.send {
			if i == chosen {
				res = append(res, recv)
			} else {
				res = append(res, zero(y.elem))
			}
		}
	}
	return res
}

var _ = token.NoPos
