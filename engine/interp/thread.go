package interp

// Goroutines and channels. Without the scheduler (ex.threads == nil) a `go`
// statement is unsupported and channels behave as host channels.

import (
	"go/types"

	"golang.org/x/tools/go/ssa"
)

type thread struct {
	id int
}

type sched struct{}

func newSched() *sched { return &sched{} }

func (s *sched) access(fr *frame, p *value, write bool) {}

func goStmt(fr *frame, instr *ssa.Go, fn value, args []value) {
	panic(unsupported{"go statement"})
}

func makeChan(n int64) value { return make(chan value, n) }

func chanSend(fr *frame, ch value, v value) {
	c := ch.(chan value)
	select {
	case c <- v:
	default:
		panic(unsupported{"blocking channel send without scheduler"})
	}
}

func chanRecv(fr *frame, instr *ssa.UnOp, ch value) value {
	c := ch.(chan value)
	var v value
	var ok bool
	select {
	case v, ok = <-c:
	default:
		panic(unsupported{"blocking channel receive without scheduler"})
	}
	if !ok {
		v = zero(instr.X.Type().Underlying().(*types.Chan).Elem())
	}
	if instr.CommaOk {
		v = tuple{v, ok}
	}
	return v
}

func doSelect(fr *frame, instr *ssa.Select) value {
	panic(unsupported{"select without scheduler"})
}

type vclock map[int]int

func (s *sched) lock(fr *frame, m *mutexState)                { m.locked = true }
func (s *sched) unlock(fr *frame, m *mutexState)              { m.locked = false }
func (s *sched) yield(fr *frame)                              {}
func (s *sched) atomicAccess(fr *frame, p *value, write bool) {}
