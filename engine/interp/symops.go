package interp

// Symbolic scalar values and the symbolic fast paths of binop/unop/conv/equals.

import (
	"fmt"
	"go/token"
	"go/types"
	"math"
	"unsafe"
)

// sym is a scalar whose value is an SMT term. k is the Go basic kind.
type sym struct {
	k types.BasicKind
	t *Term
}

// symStr is a string of concrete length whose bytes may be symbolic
// (each element is a uint8 or a sym of kind Uint8).
type symStr []value

func isSym(v value) bool {
	switch v.(type) {
	case sym, symStr:
		return true
	}
	return false
}

func kindWidth(k types.BasicKind) uint8 {
	switch k {
	case types.Bool:
		return 0
	case types.Int8, types.Uint8:
		return 8
	case types.Int16, types.Uint16:
		return 16
	case types.Int32, types.Uint32, types.Float32:
		return 32
	case types.Int, types.Int64, types.Uint, types.Uint64, types.Uintptr, types.Float64:
		return 64
	}
	panic(fmt.Sprintf("kindWidth: %v", k))
}

func kindSigned(k types.BasicKind) bool {
	switch k {
	case types.Int, types.Int8, types.Int16, types.Int32, types.Int64:
		return true
	}
	return false
}

func kindFloat(k types.BasicKind) bool { return k == types.Float32 || k == types.Float64 }

func kindSort(k types.BasicKind) Sort {
	switch k {
	case types.Bool:
		return SBool
	case types.Float32:
		return SF32
	case types.Float64:
		return SF64
	}
	return SBV
}

// kindOfValue returns the basic kind of a concrete scalar value.
func kindOfValue(v value) (types.BasicKind, bool) {
	switch v.(type) {
	case bool:
		return types.Bool, true
	case int:
		return types.Int, true
	case int8:
		return types.Int8, true
	case int16:
		return types.Int16, true
	case int32:
		return types.Int32, true
	case int64:
		return types.Int64, true
	case uint:
		return types.Uint, true
	case uint8:
		return types.Uint8, true
	case uint16:
		return types.Uint16, true
	case uint32:
		return types.Uint32, true
	case uint64:
		return types.Uint64, true
	case uintptr:
		return types.Uintptr, true
	case float32:
		return types.Float32, true
	case float64:
		return types.Float64, true
	case sym:
		return v.(sym).k, true
	}
	return 0, false
}

// termOf returns the term of a scalar value (concrete or symbolic).
func termOf(v value) *Term {
	switch x := v.(type) {
	case sym:
		return x.t
	case bool:
		return BoolT(x)
	case int:
		return BV(uint64(x), 64)
	case int8:
		return BV(uint64(x), 8)
	case int16:
		return BV(uint64(x), 16)
	case int32:
		return BV(uint64(x), 32)
	case int64:
		return BV(uint64(x), 64)
	case uint:
		return BV(uint64(x), 64)
	case uint8:
		return BV(uint64(x), 8)
	case uint16:
		return BV(uint64(x), 16)
	case uint32:
		return BV(uint64(x), 32)
	case uint64:
		return BV(x, 64)
	case uintptr:
		return BV(uint64(x), 64)
	case float32:
		return FPConst(uint64(math.Float32bits(x)), SF32)
	case float64:
		return FPConst(math.Float64bits(x), SF64)
	}
	panic(unsupported{fmt.Sprintf("termOf(%T)", v)})
}

// valueOf builds a Go value of kind k from a constant payload.
func constOfKind(k types.BasicKind, v uint64) value {
	switch k {
	case types.Bool:
		return v != 0
	case types.Int:
		return int(v)
	case types.Int8:
		return int8(v)
	case types.Int16:
		return int16(v)
	case types.Int32:
		return int32(v)
	case types.Int64:
		return int64(v)
	case types.Uint:
		return uint(v)
	case types.Uint8:
		return uint8(v)
	case types.Uint16:
		return uint16(v)
	case types.Uint32:
		return uint32(v)
	case types.Uint64:
		return v
	case types.Uintptr:
		return uintptr(v)
	case types.Float32:
		return math.Float32frombits(uint32(v))
	case types.Float64:
		return math.Float64frombits(v)
	}
	panic(fmt.Sprintf("constOfKind %v", k))
}

// mkVal wraps a term as a value of kind k (concrete when the term is constant).
func mkVal(k types.BasicKind, t *Term) value {
	if t.IsConst() {
		return constOfKind(k, t.K)
	}
	return sym{k, t}
}

// conc forces a scalar to a concrete value by case split.
func conc(v value) value {
	s, ok := v.(sym)
	if !ok {
		return v
	}
	if s.k == types.Bool {
		return ex.Branch(s.t)
	}
	if kindFloat(s.k) {
		bitsT := FPToBits(s.t)
		return constOfKind(s.k, ex.Split(bitsT))
	}
	return constOfKind(s.k, ex.Split(s.t))
}

func concStr(v value) value {
	ss, ok := v.(symStr)
	if !ok {
		return v
	}
	b := make([]byte, len(ss))
	for i, e := range ss {
		b[i] = conc(e).(uint8)
	}
	return string(b)
}

// mkStr builds a string value from byte values; concrete if all bytes are.
func mkStr(bs []value) value {
	allc := true
	for _, b := range bs {
		if _, ok := b.(sym); ok {
			allc = false
			break
		}
	}
	if allc {
		b := make([]byte, len(bs))
		for i, e := range bs {
			b[i] = e.(uint8)
		}
		return string(b)
	}
	return symStr(append([]value(nil), bs...))
}

func strBytes(v value) []value {
	switch s := v.(type) {
	case string:
		r := make([]value, len(s))
		for i := 0; i < len(s); i++ {
			r[i] = s[i]
		}
		return r
	case symStr:
		return []value(s)
	}
	panic(fmt.Sprintf("strBytes(%T)", v))
}

func strLen(v value) int {
	switch s := v.(type) {
	case string:
		return len(s)
	case symStr:
		return len(s)
	}
	panic(fmt.Sprintf("strLen(%T)", v))
}

type runtimeError struct{ msg string }

func (e runtimeError) Error() string { return "runtime error: " + e.msg }
func (e runtimeError) RuntimeError() {}

// fault forks a panicking path when cond (the fault condition) is feasible.
func fault(cond *Term, msg string) {
	if cond.IsFalse() {
		return
	}
	if ex.Branch(cond) {
		panic(runtimeError{msg})
	}
}

func shiftCount(y value, w uint8) *Term {
	// returns the count as a w-bit unsigned term saturated: counts >= w stay >= w
	k, _ := kindOfValue(y)
	ty := termOf(y)
	if kindSigned(k) {
		fault(Cmp(OSlt, ty, BV(0, ty.W)), "negative shift amount")
	}
	if ty.W == w {
		return ty
	}
	if ty.W < w {
		return Zext(ty, w)
	}
	// wider count: saturate
	hi := Extract(ty, ty.W-1, w)
	lo := Extract(ty, w-1, 0)
	return Ite(Cmp(OEq, hi, BV(0, hi.W)), lo, BV(uint64(w), w))
}

func symBinop(op token.Token, t types.Type, x, y value) value {
	// strings
	if _, ok := x.(symStr); ok {
		return symStrBinop(op, x, y)
	}
	if _, ok := y.(symStr); ok {
		return symStrBinop(op, x, y)
	}
	k, ok := kindOfValue(x)
	if !ok {
		// comparison of aggregates containing symbolic parts
		switch op {
		case token.EQL:
			return mkVal(types.Bool, equalsT(t, x, y))
		case token.NEQ:
			return mkVal(types.Bool, Not(equalsT(t, x, y)))
		}
		panic(unsupported{fmt.Sprintf("symbolic binop %s on %T", op, x)})
	}
	a := termOf(x)
	if op == token.SHL || op == token.SHR {
		w := kindWidth(k)
		c := shiftCount(y, w)
		switch {
		case op == token.SHL:
			return mkVal(k, Bin(OShl, a, c))
		case kindSigned(k):
			return mkVal(k, Bin(OAshr, a, c))
		default:
			return mkVal(k, Bin(OLshr, a, c))
		}
	}
	b := termOf(y)
	if k == types.Bool {
		switch op {
		case token.EQL:
			return mkVal(types.Bool, Cmp(OEq, a, b))
		case token.NEQ:
			return mkVal(types.Bool, Not(Cmp(OEq, a, b)))
		}
		panic(unsupported{"bool binop " + op.String()})
	}
	if kindFloat(k) {
		switch op {
		case token.ADD:
			return mkVal(k, FPBin(OFPAdd, a, b))
		case token.SUB:
			return mkVal(k, FPBin(OFPSub, a, b))
		case token.MUL:
			return mkVal(k, FPBin(OFPMul, a, b))
		case token.QUO:
			return mkVal(k, FPBin(OFPDiv, a, b))
		case token.EQL:
			return mkVal(types.Bool, FPCmp(OFPEq, a, b))
		case token.NEQ:
			return mkVal(types.Bool, Not(FPCmp(OFPEq, a, b)))
		case token.LSS:
			return mkVal(types.Bool, FPCmp(OFPLt, a, b))
		case token.LEQ:
			return mkVal(types.Bool, FPCmp(OFPLe, a, b))
		case token.GTR:
			return mkVal(types.Bool, FPCmp(OFPLt, b, a))
		case token.GEQ:
			return mkVal(types.Bool, FPCmp(OFPLe, b, a))
		}
		panic(unsupported{"float binop " + op.String()})
	}
	sg := kindSigned(k)
	switch op {
	case token.ADD:
		return mkVal(k, Bin(OAdd, a, b))
	case token.SUB:
		return mkVal(k, Bin(OSub, a, b))
	case token.MUL:
		return mkVal(k, Bin(OMul, a, b))
	case token.QUO, token.REM:
		fault(Cmp(OEq, b, BV(0, b.W)), "integer divide by zero")
		var o Op
		switch {
		case op == token.QUO && sg:
			o = OSDiv
		case op == token.QUO:
			o = OUDiv
		case sg:
			o = OSRem
		default:
			o = OURem
		}
		return mkVal(k, Bin(o, a, b))
	case token.AND:
		return mkVal(k, Bin(OAnd, a, b))
	case token.OR:
		return mkVal(k, Bin(OOr, a, b))
	case token.XOR:
		return mkVal(k, Bin(OXor, a, b))
	case token.AND_NOT:
		return mkVal(k, Bin(OAnd, a, Un(ONot, b)))
	case token.EQL:
		return mkVal(types.Bool, Cmp(OEq, a, b))
	case token.NEQ:
		return mkVal(types.Bool, Not(Cmp(OEq, a, b)))
	case token.LSS:
		if sg {
			return mkVal(types.Bool, Cmp(OSlt, a, b))
		}
		return mkVal(types.Bool, Cmp(OUlt, a, b))
	case token.LEQ:
		if sg {
			return mkVal(types.Bool, Cmp(OSle, a, b))
		}
		return mkVal(types.Bool, Cmp(OUle, a, b))
	case token.GTR:
		if sg {
			return mkVal(types.Bool, Cmp(OSlt, b, a))
		}
		return mkVal(types.Bool, Cmp(OUlt, b, a))
	case token.GEQ:
		if sg {
			return mkVal(types.Bool, Cmp(OSle, b, a))
		}
		return mkVal(types.Bool, Cmp(OUle, b, a))
	}
	panic(unsupported{"symbolic binop " + op.String()})
}

func symStrBinop(op token.Token, x, y value) value {
	switch op {
	case token.ADD:
		return mkStr(append(append([]value(nil), strBytes(x)...), strBytes(y)...))
	case token.EQL:
		return mkVal(types.Bool, strEqT(x, y))
	case token.NEQ:
		return mkVal(types.Bool, Not(strEqT(x, y)))
	}
	// ordering: concretise
	return binop(op, types.Typ[types.String], concStr(x), concStr(y))
}

func strEqT(x, y value) *Term {
	a, b := strBytes(x), strBytes(y)
	if len(a) != len(b) {
		return BoolT(false)
	}
	r := BoolT(true)
	for i := range a {
		r = And(r, Cmp(OEq, termOf(a[i]), termOf(b[i])))
	}
	return r
}

// deepSym reports whether v contains a symbolic scalar (bounded depth).
func deepSym(v value) bool {
	switch x := v.(type) {
	case sym, symStr:
		return true
	case structure:
		for _, e := range x {
			if deepSym(e) {
				return true
			}
		}
	case array:
		for _, e := range x {
			if deepSym(e) {
				return true
			}
		}
	case iface:
		return deepSym(x.v)
	}
	return false
}

// equalsT is equals() returning a boolean term.
func equalsT(t types.Type, x, y value) *Term {
	switch x := x.(type) {
	case sym:
		return scalarEqT(x, y)
	case symStr:
		return strEqT(x, y)
	case string:
		if _, ok := y.(symStr); ok {
			return strEqT(x, y)
		}
		return BoolT(x == y.(string))
	case structure:
		yy := y.(structure)
		tStruct := t.Underlying().(*types.Struct)
		r := BoolT(true)
		for i, n := 0, tStruct.NumFields(); i < n; i++ {
			if f := tStruct.Field(i); f.Name() != "_" {
				r = And(r, equalsT(f.Type(), x[i], yy[i]))
			}
		}
		return r
	case array:
		yy := y.(array)
		tElt := t.Underlying().(*types.Array).Elem()
		r := BoolT(true)
		for i := range x {
			r = And(r, equalsT(tElt, x[i], yy[i]))
		}
		return r
	case iface:
		yy := y.(iface)
		if !sameType(x.t, yy.t) {
			return BoolT(false)
		}
		if x.t == nil {
			return BoolT(true)
		}
		return equalsT(x.t, x.v, yy.v)
	}
	if _, ok := y.(sym); ok {
		return scalarEqT(x, y)
	}
	return BoolT(equals(t, x, y))
}

func scalarEqT(x, y value) *Term {
	k, _ := kindOfValue(x)
	a, b := termOf(x), termOf(y)
	if kindFloat(k) {
		return FPCmp(OFPEq, a, b)
	}
	return Cmp(OEq, a, b)
}

func symUnop(op token.Token, x sym) value {
	switch op {
	case token.SUB:
		if kindFloat(x.k) {
			return mkVal(x.k, FPNeg(x.t))
		}
		return mkVal(x.k, Un(ONeg, x.t))
	case token.XOR:
		return mkVal(x.k, Un(ONot, x.t))
	case token.NOT:
		return mkVal(types.Bool, Not(x.t))
	}
	panic(unsupported{"symbolic unop " + op.String()})
}

// symConvNum converts symbolic scalar x to basic kind dst with Go semantics.
func symConvNum(dst types.BasicKind, x sym) value {
	if dst == x.k {
		return x
	}
	sw, dw := kindWidth(x.k), kindWidth(dst)
	switch {
	case x.k == types.Bool:
		panic(unsupported{"conversion of symbolic bool"})
	case kindFloat(x.k) && kindFloat(dst):
		return mkVal(dst, FPToFP(x.t, kindSort(dst)))
	case kindFloat(x.k):
		return mkVal(dst, fpToIntGo(x.t, dst))
	case kindFloat(dst):
		return mkVal(dst, FPFromInt(x.t, kindSigned(x.k), kindSort(dst)))
	default:
		// integer to integer: truncate or extend according to the source signedness
		if dw <= sw {
			return mkVal(dst, Extract(x.t, dw-1, 0))
		}
		if kindSigned(x.k) {
			return mkVal(dst, Sext(x.t, dw))
		}
		return mkVal(dst, Zext(x.t, dw))
	}
}

// fpToIntGo models Go's float→integer conversion on amd64.
func fpToIntGo(f *Term, dst types.BasicKind) *Term {
	src := f.Sort
	two63 := fpMk(math.Ldexp(1, 63), src)
	minI64 := BV(1<<63, 64)
	isNaN := FPPred(OFPIsNaN, f)
	// CVTTSD2SQ: in-range → truncation, otherwise 0x8000000000000000
	cvt := func(g *Term) *Term {
		inr := And(Not(FPPred(OFPIsNaN, g)), And(FPCmp(OFPLt, g, two63), FPCmp(OFPLe, FPNeg(two63), g)))
		return Ite(inr, FPToInt(g, true, 64), minI64)
	}
	switch dst {
	case types.Int, types.Int64:
		return cvt(f)
	case types.Uint, types.Uint64, types.Uintptr:
		// Go: if f < 2^63 { cvt(f) } else { cvt(f-2^63) ^ 0x8000… } ; NaN takes the else branch
		lt := FPCmp(OFPLt, f, two63)
		_ = isNaN
		return Ite(lt, cvt(f), Bin(OXor, cvt(FPBin(OFPSub, f, two63)), minI64))
	case types.Int32:
		two31 := fpMk(math.Ldexp(1, 31), src)
		inr := And(Not(isNaN), And(FPCmp(OFPLt, f, two31), FPCmp(OFPLe, FPNeg(two31), f)))
		return Ite(inr, FPToInt(f, true, 32), BV(1<<31, 32))
	case types.Uint32:
		return Extract(cvt(f), 31, 0)
	case types.Int16, types.Int8, types.Uint16, types.Uint8:
		two31 := fpMk(math.Ldexp(1, 31), src)
		inr := And(Not(isNaN), And(FPCmp(OFPLt, f, two31), FPCmp(OFPLe, FPNeg(two31), f)))
		v32 := Ite(inr, FPToInt(f, true, 32), BV(1<<31, 32))
		return Extract(v32, kindWidth(dst)-1, 0)
	}
	panic(unsupported{"float to int conversion"})
}

func basicKindOf(t types.Type) (types.BasicKind, bool) {
	b, ok := t.Underlying().(*types.Basic)
	if !ok {
		return 0, false
	}
	k := b.Kind()
	switch k {
	case types.UntypedInt:
		k = types.Int
	case types.UntypedRune:
		k = types.Int32
	case types.UntypedFloat:
		k = types.Float64
	case types.UntypedBool:
		k = types.Bool
	}
	return k, true
}

// symConv handles Convert when the operand is symbolic.
func symConv(t_dst, t_src types.Type, x value) value {
	ut_dst := t_dst.Underlying()
	switch xv := x.(type) {
	case sym:
		if db, ok := ut_dst.(*types.Basic); ok {
			if db.Kind() == types.String {
				// string(rune): a single byte when the value is ASCII on this path, else concretise
				w := xv.t.W
				if !ex.Branch(Not(Cmp(OUlt, xv.t, BV(0x80, w)))) {
					return mkStr([]value{mkVal(types.Uint8, Extract(xv.t, 7, 0))})
				}
				return conv(t_dst, t_src, conc(x))
			}
			if db.Kind() == types.UnsafePointer {
				panic(unsupported{"symbolic to unsafe.Pointer"})
			}
			dk, _ := basicKindOf(t_dst)
			return symConvNum(dk, xv)
		}
	case symStr:
		switch d := ut_dst.(type) {
		case *types.Basic:
			if d.Kind() == types.String {
				return xv
			}
		case *types.Slice:
			if d.Elem().Underlying().(*types.Basic).Kind() == types.Byte {
				return append([]value(nil), []value(xv)...)
			}
			// []rune(s): paths on which a symbolic byte is not ASCII are cut (recorded), on the
			// remaining paths runes are the bytes
			for _, b := range xv {
				if cb, ok := b.(uint8); ok && cb >= 0x80 {
					return conv(t_dst, t_src, concStr(x))
				}
			}
			out := make([]value, len(xv))
			for i, b := range xv {
				if sb, ok := b.(sym); ok {
					if ex.Branch(Not(Cmp(OUlt, sb.t, BV(0x80, 8)))) {
						ex.stats.Assumes["cut: non-ASCII symbolic text in string->[]rune"]++
						panic(pathEnd{"non-ASCII symbolic text"})
					}
					out[i] = mkVal(types.Int32, Zext(sb.t, 32))
				} else {
					out[i] = int32(b.(uint8))
				}
			}
			return out
		}
	}
	panic(unsupported{fmt.Sprintf("symbolic conversion %s -> %s (%T)", t_src, t_dst, x)})
}

var _ = unsafe.Pointer(nil)


// symFloatMinMax: Go's min/max on floats: NaN if either is NaN, -0 < +0.
func symFloatMinMax(k types.BasicKind, x, y value, isMin bool) value {
	a, b := termOf(x), termOf(y)
	nan := FPConst(0x7ff8000000000001, SF64)
	if k == types.Float32 {
		nan = FPConst(0x7fc00000, SF32)
	}
	anyNaN := Or(FPPred(OFPIsNaN, a), FPPred(OFPIsNaN, b))
	var pick *Term
	ab, bb := FPToBits(a), FPToBits(b)
	if isMin {
		// equal (incl. +0/-0): or the bit patterns (min(-0,+0) = -0)
		eq := FPFromBits(Bin(OOr, ab, bb), a.Sort)
		pick = Ite(FPCmp(OFPLt, a, b), a, Ite(FPCmp(OFPLt, b, a), b, eq))
	} else {
		eq := FPFromBits(Bin(OAnd, ab, bb), a.Sort)
		pick = Ite(FPCmp(OFPLt, b, a), a, Ite(FPCmp(OFPLt, a, b), b, eq))
	}
	return mkVal(k, Ite(anyNaN, nan, pick))
}
