// Copyright 2013 The Go Authors. All rights reserved.
// Use of this source code is governed by a BSD-style
// license that can be found in the LICENSE file.

// Package ssa/interp defines an interpreter for the SSA
// representation of Go programs.
//
// This interpreter is provided as an adjunct for testing the SSA
// construction algorithm.  Its purpose is to provide a minimal
// metacircular implementation of the dynamic semantics of each SSA
// instruction.  It is not, and will never be, a production-quality Go
// interpreter.
//
// The following is a partial list of Go features that are currently
// unsupported or incomplete in the interpreter.
//
// * Unsafe operations, including all uses of unsafe.Pointer, are
// impossible to support given the "boxed" value representation we
// have chosen.
//
// * The reflect package is only partially implemented.
//
// * The "testing" package is no longer supported because it
// depends on low-level details that change too often.
//
// * "sync/atomic" operations are not atomic due to the "boxed" value
// representation: it is not possible to read, modify and write an
// interface value atomically. As a consequence, Mutexes are currently
// broken.
//
// * recover is only partially implemented.  Also, the interpreter
// makes no attempt to distinguish target panics from interpreter
// crashes.
//
// * the sizes of the int, uint and uintptr types in the target
// program are assumed to be the same as those of the interpreter
// itself.
//
// * all values occupy space, even those of types defined by the spec
// to have zero size, e.g. struct{}.  This can cause asymptotic
// performance degradation.
//
// * os.Exit is implemented using panic, causing deferred functions to
// run.
package interp // import "golang.org/x/tools/go/ssa/interp"

import (
	"fmt"
	"go/token"
	"go/types"
	"log"
	"os"
	"reflect"
	"runtime"
	"slices"
	_ "sync/atomic"
	_ "unsafe"

	"golang.org/x/tools/go/ssa"
	)

type continuation int

const (
	kNext continuation = iota
	kReturn
	kJump
)

// Mode is a bitmask of options affecting the interpreter.
type Mode uint

const (
	DisableRecover Mode = 1 << iota // Disable recover() in target programs; show interpreter crash instead.
	EnableTracing                   // Print a trace of all instructions as they are interpreted.
)

type methodSet map[string]*ssa.Function

// State shared between all interpreted goroutines.
type interpreter struct {
	osArgs             []value                // the value of os.Args
	prog               *ssa.Program           // the SSA program
	globals            map[*ssa.Global]*value // addresses of global variables (immutable)
	mode               Mode                   // interpreter options
	reflectPackage     *ssa.Package           // the fake reflect package
	errorMethods       methodSet              // the method set of reflect.error, which implements the error interface.
	rtypeMethods       methodSet              // the method set of rtype, which implements the reflect.Type interface.
	runtimeErrorString types.Type             // the runtime.errorString type
	sizes              types.Sizes            // the effective type-sizing function
	goroutines         int32                  // atomically updated
	extCache           map[*ssa.Function]externalFn
	initDone           map[*ssa.Package]bool
	initFailed         map[string]string
	initAllow          func(pkgPath string) bool
}

type deferred struct {
	fn    value
	args  []value
	instr *ssa.Defer
	tail  *deferred
}

type frame struct {
	depth            int
	thread           *thread
	i                *interpreter
	caller           *frame
	fn               *ssa.Function
	block, prevBlock *ssa.BasicBlock
	env              map[ssa.Value]value // dynamic values of SSA variables
	locals           []value
	defers           *deferred
	result           value
	panicking        bool
	panic            interface{}
	phitemps         []value // temporaries for parallel phi assignment
}

func (fr *frame) get(key ssa.Value) value {
	switch key := key.(type) {
	case nil:
		// Hack; simplifies handling of optional attributes
		// such as ssa.Slice.{Low,High}.
		return nil
	case *ssa.Function, *ssa.Builtin:
		return key
	case *ssa.Const:
		return constValue(key)
	case *ssa.Global:
		if r, ok := fr.i.globals[key]; ok {
			return r
		}
	}
	if r, ok := fr.env[key]; ok {
		return r
	}
	panic(fmt.Sprintf("get: no value for %T: %v", key, key.Name()))
}

// runDefer runs a deferred call d.
// It always returns normally, but may set or clear fr.panic.
func (fr *frame) runDefer(d *deferred) {
	if fr.i.mode&EnableTracing != 0 {
		fmt.Fprintf(os.Stderr, "%s: invoking deferred function call\n",
			fr.i.prog.Fset.Position(d.instr.Pos()))
	}
	var ok bool
	defer func() {
		if !ok {
			// Deferred call created a new state of panic.
			fr.panicking = true
			fr.panic = recover()
		}
	}()
	call(fr.i, fr, d.instr.Pos(), d.fn, d.args)
	ok = true
}

// runDefers executes fr's deferred function calls in LIFO order.
//
// On entry, fr.panicking indicates a state of panic; if
// true, fr.panic contains the panic value.
//
// On completion, if a deferred call started a panic, or if no
// deferred call recovered from a previous state of panic, then
// runDefers itself panics after the last deferred call has run.
//
// If there was no initial state of panic, or it was recovered from,
// runDefers returns normally.
func (fr *frame) runDefers() {
	for d := fr.defers; d != nil; d = d.tail {
		fr.runDefer(d)
	}
	fr.defers = nil
	if fr.panicking {
		panic(fr.panic) // new panic, or still panicking
	}
}

// lookupMethod returns the method set for type typ, which may be one
// of the interpreter's fake types.
func lookupMethod(i *interpreter, typ types.Type, meth *types.Func) *ssa.Function {
	switch typ {
	case rtypeType:
		return i.rtypeMethods[meth.Id()]
	case errorType:
		return i.errorMethods[meth.Id()]
	}
	return i.prog.LookupMethod(typ, meth.Pkg(), meth.Name())
}

// visitInstr interprets a single ssa.Instruction within the activation
// record frame.  It returns a continuation value indicating where to
// read the next instruction from.
func visitInstr(fr *frame, instr ssa.Instruction) continuation {
	switch instr := instr.(type) {
	case *ssa.DebugRef:
		// no-op

	case *ssa.UnOp:
		x := fr.get(instr.X)
		if instr.Op == token.ARROW {
			fr.env[instr] = chanRecv(fr, instr, x)
			break
		}
		if instr.Op == token.MUL {
			if p, ok := x.(*value); ok {
				if p == nil {
					panic(runtimeError{"invalid memory address or nil pointer dereference"})
				}
				if ex.threads != nil {
					ex.threads.access(fr, p, false)
				}
			}
		}
		r := unop(instr, x)
		if _, ok := r.(sym); ok {
			noteSym(fr)
		}
		fr.env[instr] = r

	case *ssa.BinOp:
		r := binop(instr.Op, instr.X.Type(), fr.get(instr.X), fr.get(instr.Y))
		if _, ok := r.(sym); ok {
			noteSym(fr)
		}
		fr.env[instr] = r

	case *ssa.Call:
		fn, args := prepareCall(fr, &instr.Call)
		fr.env[instr] = call(fr.i, fr, instr.Pos(), fn, args)

	case *ssa.ChangeInterface:
		fr.env[instr] = fr.get(instr.X)

	case *ssa.ChangeType:
		fr.env[instr] = fr.get(instr.X) // (can't fail)

	case *ssa.Convert:
		fr.env[instr] = conv(instr.Type(), instr.X.Type(), fr.get(instr.X))

	case *ssa.SliceToArrayPointer:
		fr.env[instr] = sliceToArrayPointer(instr.Type(), instr.X.Type(), fr.get(instr.X))

	case *ssa.MakeInterface:
		fr.env[instr] = iface{t: instr.X.Type(), v: fr.get(instr.X)}

	case *ssa.Extract:
		fr.env[instr] = fr.get(instr.Tuple).(tuple)[instr.Index]

	case *ssa.Slice:
		fr.env[instr] = slice(fr.get(instr.X), fr.get(instr.Low), fr.get(instr.High), fr.get(instr.Max))

	case *ssa.Return:
		switch len(instr.Results) {
		case 0:
		case 1:
			fr.result = fr.get(instr.Results[0])
		default:
			var res []value
			for _, r := range instr.Results {
				res = append(res, fr.get(r))
			}
			fr.result = tuple(res)
		}
		fr.block = nil
		return kReturn

	case *ssa.RunDefers:
		fr.runDefers()

	case *ssa.Panic:
		panic(targetPanic{fr.get(instr.X)})

	case *ssa.Send:
		chanSend(fr, fr.get(instr.Chan), fr.get(instr.X))

	case *ssa.Store:
		addr := fr.get(instr.Addr)
		if sp, ok := addr.(*symPtr); ok {
			sp.store(fr.get(instr.Val))
		} else if cp, ok := addr.(*castPtr); ok {
			cp.store(fr.get(instr.Val))
		} else {
			p := addr.(*value)
			if p == nil {
				panic(runtimeError{"invalid memory address or nil pointer dereference"})
			}
			if ex.threads != nil {
				ex.threads.access(fr, p, true)
			}
			store(mustDeref(instr.Addr.Type()), p, fr.get(instr.Val))
		}

	case *ssa.If:
		succ := 1
		c := fr.get(instr.Cond)
		if sc, ok := c.(sym); ok {
			noteSym(fr)
			c = ex.Branch(sc.t)
		}
		if c.(bool) {
			succ = 0
		}
		fr.prevBlock, fr.block = fr.block, fr.block.Succs[succ]
		return kJump

	case *ssa.Jump:
		fr.prevBlock, fr.block = fr.block, fr.block.Succs[0]
		return kJump

	case *ssa.Defer:
		fn, args := prepareCall(fr, &instr.Call)
		defers := &fr.defers
		if into := fr.get(instr.DeferStack); into != nil {
			defers = into.(**deferred)
		}
		*defers = &deferred{
			fn:    fn,
			args:  args,
			instr: instr,
			tail:  *defers,
		}

	case *ssa.Go:
		fn, args := prepareCall(fr, &instr.Call)
		goStmt(fr, instr, fn, args)

	case *ssa.MakeChan:
		fr.env[instr] = makeChan(asInt64(fr.get(instr.Size)))

	case *ssa.Alloc:
		var addr *value
		if instr.Heap {
			// new
			addr = new(value)
			fr.env[instr] = addr
		} else {
			// local
			addr = fr.env[instr].(*value)
		}
		*addr = zero(mustDeref(instr.Type()))

	case *ssa.MakeSlice:
		fr.env[instr] = makeSlice(instr, fr.get(instr.Len), fr.get(instr.Cap))

	case *ssa.MakeMap:
		var reserve int64
		if instr.Reserve != nil {
			reserve = asInt64(fr.get(instr.Reserve))
		}
		if !fitsInt(reserve, fr.i.sizes) {
			panic(fmt.Sprintf("ssa.MakeMap.Reserve value %d does not fit in int", reserve))
		}
		fr.env[instr] = makeMap(instr.Type().Underlying().(*types.Map).Key(), reserve)

	case *ssa.Range:
		fr.env[instr] = rangeIter(fr.get(instr.X), instr.X.Type())

	case *ssa.Next:
		fr.env[instr] = fr.get(instr.Iter).(iter).next()

	case *ssa.FieldAddr:
		p := fr.get(instr.X).(*value)
		if p == nil {
			panic(runtimeError{"invalid memory address or nil pointer dereference"})
		}
		fr.env[instr] = &(*p).(structure)[instr.Field]

	case *ssa.Field:
		fr.env[instr] = fr.get(instr.X).(structure)[instr.Field]

	case *ssa.IndexAddr:
		x := fr.get(instr.X)
		idx := fr.get(instr.Index)
		switch x := x.(type) {
		case []value:
			fr.env[instr] = indexAddr(fr, instr, x, idx)
		case *value: // *array
			if x == nil {
				panic(runtimeError{"invalid memory address or nil pointer dereference"})
			}
			fr.env[instr] = indexAddr(fr, instr, []value((*x).(array)), idx)
		default:
			panic(fmt.Sprintf("unexpected x type in IndexAddr: %T", x))
		}

	case *ssa.Index:
		x := fr.get(instr.X)
		idx := fr.get(instr.Index)

		switch x := x.(type) {
		case array:
			fr.env[instr] = indexLoad([]value(x), idx)
		case string:
			if _, ok := idx.(sym); ok {
				fr.env[instr] = indexLoad(strBytes(x), idx)
			} else {
				i := asInt64(idx)
				if i < 0 || i >= int64(len(x)) {
					panic(runtimeError{fmt.Sprintf("index out of range [%d] with length %d", i, len(x))})
				}
				fr.env[instr] = x[i]
			}
		case symStr:
			fr.env[instr] = indexLoad([]value(x), idx)
		default:
			panic(fmt.Sprintf("unexpected x type in Index: %T", x))
		}

	case *ssa.Lookup:
		fr.env[instr] = lookup(instr, fr.get(instr.X), symMapKey(fr.get(instr.X), fr.get(instr.Index)))

	case *ssa.MapUpdate:
		m := fr.get(instr.Map)
		key := concKey(fr.get(instr.Key))
		v := fr.get(instr.Value)
		switch m := m.(type) {
		case map[value]value:
			m[key] = v
		case *hashmap:
			m.insert(key.(hashable), v)
		default:
			panic(fmt.Sprintf("illegal map type: %T", m))
		}

	case *ssa.TypeAssert:
		fr.env[instr] = typeAssert(fr.i, instr, fr.get(instr.X).(iface))

	case *ssa.MakeClosure:
		var bindings []value
		for _, binding := range instr.Bindings {
			bindings = append(bindings, fr.get(binding))
		}
		fr.env[instr] = &closure{instr.Fn.(*ssa.Function), bindings}

	case *ssa.Phi:
		log.Fatal("unreachable") // phis are processed at block entry

	case *ssa.Select:
		if true {
			fr.env[instr] = doSelect(fr, instr)
			break
		}
		var cases []reflect.SelectCase
		if !instr.Blocking {
			cases = append(cases, reflect.SelectCase{
				Dir: reflect.SelectDefault,
			})
		}
		for _, state := range instr.States {
			var dir reflect.SelectDir
			if state.Dir == types.RecvOnly {
				dir = reflect.SelectRecv
			} else {
				dir = reflect.SelectSend
			}
			var send reflect.Value
			if state.Send != nil {
				send = reflect.ValueOf(fr.get(state.Send))
			}
			cases = append(cases, reflect.SelectCase{
				Dir:  dir,
				Chan: reflect.ValueOf(fr.get(state.Chan)),
				Send: send,
			})
		}
		chosen, recv, recvOk := reflect.Select(cases)
		if !instr.Blocking {
			chosen-- // default case should have index -1.
		}
		r := tuple{chosen, recvOk}
		for i, st := range instr.States {
			if st.Dir == types.RecvOnly {
				var v value
				if i == chosen && recvOk {
					// No need to copy since send makes an unaliased copy.
					v = recv.Interface().(value)
				} else {
					v = zero(st.Chan.Type().Underlying().(*types.Chan).Elem())
				}
				r = append(r, v)
			}
		}
		fr.env[instr] = r

	default:
		panic(fmt.Sprintf("unexpected instruction: %T", instr))
	}

	// if val, ok := instr.(ssa.Value); ok {
	// 	fmt.Println(toString(fr.env[val])) // debugging
	// }

	return kNext
}

// prepareCall determines the function value and argument values for a
// function call in a Call, Go or Defer instruction, performing
// interface method lookup if needed.
func prepareCall(fr *frame, call *ssa.CallCommon) (fn value, args []value) {
	v := fr.get(call.Value)
	if call.Method == nil {
		// Function call.
		fn = v
	} else {
		// Interface method invocation.
		recv := v.(iface)
		if recv.t == nil {
			panic(runtimeError{"invalid memory address or nil pointer dereference (method call on nil interface)"})
		}
		if f := lookupMethod(fr.i, recv.t, call.Method); f == nil {
			// Unreachable in well-typed programs.
			panic(fmt.Sprintf("method set for dynamic type %v does not contain %s", recv.t, call.Method))
		} else {
			fn = f
		}
		args = append(args, recv.v)
	}
	for _, arg := range call.Args {
		args = append(args, fr.get(arg))
	}
	return
}

// call interprets a call to a function (function, builtin or closure)
// fn with arguments args, returning its result.
// callpos is the position of the callsite.
func call(i *interpreter, caller *frame, callpos token.Pos, fn value, args []value) value {
	switch fn := fn.(type) {
	case *ssa.Function:
		if fn == nil {
			panic(runtimeError{"invalid memory address or nil pointer dereference (call of nil func)"})
		}
		return callSSA(i, caller, callpos, fn, args, nil)
	case *closure:
		return callSSA(i, caller, callpos, fn.Fn, args, fn.Env)
	case *ssa.Builtin:
		return callBuiltin(caller, callpos, fn, args)
	}
	panic(fmt.Sprintf("cannot call %T", fn))
}

func loc(fset *token.FileSet, pos token.Pos) string {
	if pos == token.NoPos {
		return ""
	}
	return " at " + fset.Position(pos).String()
}

// callSSA interprets a call to function fn with arguments args,
// and lexical environment env, returning its result.
// callpos is the position of the callsite.
func callSSA(i *interpreter, caller *frame, callpos token.Pos, fn *ssa.Function, args []value, env []value) value {
	if i.mode&EnableTracing != 0 {
		fset := fn.Prog.Fset
		// TODO(adonovan): fix: loc() lies for external functions.
		fmt.Fprintf(os.Stderr, "Entering %s%s.\n", fn, loc(fset, fn.Pos()))
		suffix := ""
		if caller != nil {
			suffix = ", resuming " + caller.fn.String() + loc(fset, callpos)
		}
		defer fmt.Fprintf(os.Stderr, "Leaving %s%s.\n", fn, suffix)
	}
	fr := &frame{
		i:      i,
		caller: caller, // for panic/recover
		fn:     fn,
	}
	if caller != nil {
		fr.depth = caller.depth + 1
		fr.thread = caller.thread
		if fr.depth > maxCallDepth {
			panic(unsupported{"call depth budget exceeded in " + fn.String()})
		}
	}
	if fn.Parent() == nil {
		ext, known := i.extCache[fn]
		if !known {
			ext = externals[fn.String()]
			if ext == nil && fn.Origin() != nil {
				ext = externals[fn.Origin().String()]
			}
			i.extCache[fn] = ext
		}
		if ext != nil {
			if i.mode&EnableTracing != 0 {
				fmt.Fprintln(os.Stderr, "\t(external)")
			}
			return ext(fr, args)
		}
		if fn.Blocks == nil {
			// assembly routine with a pure Go twin (Go convention: <name>Generic)
			if fn.Pkg != nil {
				if g := fn.Pkg.Func(fn.Name() + "Generic"); g != nil && g.Blocks != nil && types.Identical(g.Signature, fn.Signature) {
					return callSSA(i, caller, callpos, g, args, env)
				}
			}
			panic(unsupported{"no code for function: " + fn.String()})
		}
		if fn.Synthetic == "package initializer" {
			return runPackageInit(i, fr, fn)
		}
	}

	return runBody(i, fr, fn, args, env)
}

func runBody(i *interpreter, fr *frame, fn *ssa.Function, args []value, env []value) value {
	// generic function body?
	if fn.TypeParams().Len() > 0 && len(fn.TypeArgs()) == 0 {
		panic("interp requires ssa.BuilderMode to include InstantiateGenerics to execute generics")
	}

	fr.env = make(map[ssa.Value]value)
	fr.block = fn.Blocks[0]
	fr.locals = make([]value, len(fn.Locals))
	for i, l := range fn.Locals {
		fr.locals[i] = zero(mustDeref(l.Type()))
		fr.env[l] = &fr.locals[i]
	}
	for i, p := range fn.Params {
		fr.env[p] = args[i]
	}
	for i, fv := range fn.FreeVars {
		fr.env[fv] = env[i]
	}
	for fr.block != nil {
		runFrame(fr)
	}
	// Destroy the locals to avoid accidental use after return.
	for i := range fn.Locals {
		fr.locals[i] = bad{}
	}
	return fr.result
}

// runFrame executes SSA instructions starting at fr.block and
// continuing until a return, a panic, or a recovered panic.
//
// After a panic, runFrame panics.
//
// After a normal return, fr.result contains the result of the call
// and fr.block is nil.
//
// A recovered panic in a function without named return parameters
// (NRPs) becomes a normal return of the zero value of the function's
// result type.
//
// After a recovered panic in a function with NRPs, fr.result is
// undefined and fr.block contains the block at which to resume
// control.
func runFrame(fr *frame) {
	defer func() {
		if fr.block == nil {
			return // normal return
		}
		if fr.i.mode&DisableRecover != 0 {
			return // let interpreter crash
		}
		fr.panicking = true
		fr.panic = recover()
		if fr.i.mode&EnableTracing != 0 {
			fmt.Fprintf(os.Stderr, "Panicking: %T %v.\n", fr.panic, fr.panic)
		}
		fr.runDefers()
		fr.block = fr.fn.Recover
	}()

	for {
		if fr.i.mode&EnableTracing != 0 {
			fmt.Fprintf(os.Stderr, ".%s:\n", fr.block)
		}

		nonPhis := executePhis(fr)
		for _, instr := range nonPhis {
			if fr.i.mode&EnableTracing != 0 {
				if v, ok := instr.(ssa.Value); ok {
					fmt.Fprintln(os.Stderr, "\t", v.Name(), "=", instr)
				} else {
					fmt.Fprintln(os.Stderr, "\t", instr)
				}
			}
			ex.steps++
			ex.curFr, ex.curInstr = fr, instr
			if ex.steps > ex.maxSteps {
				panic(engineAbort{"step budget exceeded"})
			}
			if visitInstr(fr, instr) == kReturn {
				return
			}
			// Inv: kNext (continue) or kJump (last instr)
		}
	}
}

// executePhis executes the phi-nodes at the start of the current
// block and returns the non-phi instructions.
func executePhis(fr *frame) []ssa.Instruction {
	firstNonPhi := -1
	for i, instr := range fr.block.Instrs {
		if _, ok := instr.(*ssa.Phi); !ok {
			firstNonPhi = i
			break
		}
	}
	// Inv: 0 <= firstNonPhi; every block contains a non-phi.

	nonPhis := fr.block.Instrs[firstNonPhi:]
	if firstNonPhi > 0 {
		phis := fr.block.Instrs[:firstNonPhi]
		// Execute parallel assignment of phis.
		//
		// See "the swap problem" in Briggs et al's "Practical Improvements
		// to the Construction and Destruction of SSA Form" for discussion.
		predIndex := slices.Index(fr.block.Preds, fr.prevBlock)
		fr.phitemps = fr.phitemps[:0]
		for _, phi := range phis {
			phi := phi.(*ssa.Phi)
			if fr.i.mode&EnableTracing != 0 {
				fmt.Fprintln(os.Stderr, "\t", phi.Name(), "=", phi)
			}
			fr.phitemps = append(fr.phitemps, fr.get(phi.Edges[predIndex]))
		}
		for i, phi := range phis {
			fr.env[phi.(*ssa.Phi)] = fr.phitemps[i]
		}
	}
	return nonPhis
}

// doRecover implements the recover() built-in.
func doRecover(caller *frame) value {
	// recover() must be exactly one level beneath the deferred
	// function (two levels beneath the panicking function) to
	// have any effect.  Thus we ignore both "defer recover()" and
	// "defer f() -> g() -> recover()".
	if caller.i.mode&DisableRecover == 0 &&
		caller != nil && !caller.panicking &&
		caller.caller != nil && caller.caller.panicking {
		switch caller.caller.panic.(type) {
		case pathEnd, unsupported, engineAbort:
			// engine control flow: invisible to the target program
			return iface{}
		}
		caller.caller.panicking = false
		p := caller.caller.panic
		caller.caller.panic = nil

		// TODO(adonovan): support runtime.Goexit.
		switch p := p.(type) {
		case targetPanic:
			// The target program explicitly called panic().
			return p.v
		case runtime.Error:
			// The interpreter encountered a runtime error.
			if isEngineBug(p) {
				caller.caller.panicking = true
				caller.caller.panic = unsupported{"engine: " + p.Error()}
				return iface{}
			}
			return iface{caller.i.runtimeErrorString, p.Error()}
		case string:
			// The interpreter explicitly called panic(): an engine limitation.
			caller.caller.panicking = true
			caller.caller.panic = unsupported{"engine: " + p}
			return iface{}
		default:
			panic(fmt.Sprintf("unexpected panic type %T in target call to recover()", p))
		}
	}
	return iface{}
}

// Interpret interprets the Go program whose main package is mainpkg.
// mode specifies various interpreter options.  filename and args are
// the initial values of os.Args for the target program.  sizes is the
// effective type-sizing function for this program.
//
// Interpret returns the exit code of the program: 2 for panic (like
// gc does), or the argument to os.Exit for normal termination.
//
// The SSA program must include the "runtime" package.
//
// Type parameterized functions must have been built with
// InstantiateGenerics in the ssa.BuilderMode to be interpreted.
func Interpret(mainpkg *ssa.Package, mode Mode, sizes types.Sizes, filename string, args []string) (exitCode int) {
	i := &interpreter{
		prog:       mainpkg.Prog,
		globals:    make(map[*ssa.Global]*value),
		mode:       mode,
		sizes:      sizes,
		goroutines: 1,
	}
	runtimePkg := i.prog.ImportedPackage("runtime")
	if runtimePkg == nil {
		panic("ssa.Program doesn't include runtime package")
	}
	i.runtimeErrorString = runtimePkg.Type("errorString").Object().Type()

	initReflect(i)

	i.osArgs = append(i.osArgs, filename)
	for _, arg := range args {
		i.osArgs = append(i.osArgs, arg)
	}

	for _, pkg := range i.prog.AllPackages() {
		// Initialize global storage.
		for _, m := range pkg.Members {
			switch v := m.(type) {
			case *ssa.Global:
				cell := zero(mustDeref(v.Type()))
				i.globals[v] = &cell
			}
		}
	}

	// Top-level error handler.
	exitCode = 2
	defer func() {
		if exitCode != 2 || i.mode&DisableRecover != 0 {
			return
		}
		switch p := recover().(type) {
		case exitPanic:
			exitCode = int(p)
			return
		case targetPanic:
			fmt.Fprintln(os.Stderr, "panic:", toString(p.v))
		case runtime.Error:
			fmt.Fprintln(os.Stderr, "panic:", p.Error())
		case string:
			fmt.Fprintln(os.Stderr, "panic:", p)
		default:
			fmt.Fprintf(os.Stderr, "panic: unexpected type: %T: %v\n", p, p)
		}

		// TODO(adonovan): dump panicking interpreter goroutine?
		// buf := make([]byte, 0x10000)
		// runtime.Stack(buf, false)
		// fmt.Fprintln(os.Stderr, string(buf))
		// (Or dump panicking target goroutine?)
	}()

	// Run!
	call(i, nil, token.NoPos, mainpkg.Func("init"), nil)
	if mainFn := mainpkg.Func("main"); mainFn != nil {
		call(i, nil, token.NoPos, mainFn, nil)
		exitCode = 0
	} else {
		fmt.Fprintln(os.Stderr, "No main function.")
		exitCode = 1
	}
	return
}
