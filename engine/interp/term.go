package interp

// Hash-consed SMT terms (bit-vectors up to 64 bit, booleans, binary32/64
// floating point), with local simplification, SMT-LIB2 printing and a
// concrete evaluator over a model.

import (
	"fmt"
	"math"
	"math/bits"
	"strings"
)

type Sort uint8

const (
	SBool Sort = iota
	SBV
	SF32
	SF64
)

type Op uint8

const (
	OConst Op = iota
	OVar
	OAdd
	OSub
	OMul
	OUDiv
	OURem
	OSDiv
	OSRem
	OAnd
	OOr
	OXor
	ONot
	ONeg
	OShl
	OLshr
	OAshr
	OConcat
	OExtract // K = hi<<8 | lo
	OZext    // to width W
	OSext    // to width W
	OIte
	OEq
	OUlt
	OUle
	OSlt
	OSle
	OBAnd
	OBOr
	OBNot
	OTable // K = table id, A = index
	// floating point
	OFPFromBits // A: BV of same width -> FP (bit cast)
	OFPToBits   // A: FP -> BV (bit cast; NaN payload unspecified in SMT)
	OFPAdd
	OFPSub
	OFPMul
	OFPDiv
	OFPNeg
	OFPLt
	OFPLe
	OFPEq // IEEE ==
	OFPIsNaN
	OFPIsInf
	OFPToFP   // A: FP of other width -> this Sort (RNE)
	OFPFromS  // A: signed BV -> FP (RNE)
	OFPFromU  // A: unsigned BV -> FP (RNE)
	OFPToS    // A: FP -> signed BV of width W (RTZ), out of range unspecified
	OFPToU    // A: FP -> unsigned BV width W (RTZ)
	OFPFrom16 // A: BV16 -> F32 via binary16 (exact)
	OUF       // uninterpreted function K=uf id, args in A,B,C (up to 3)
)

type Term struct {
	Op      Op
	Sort    Sort
	W       uint8 // bit width for SBV (1..64); 32/64 for floats; 0 bool
	A, B, C *Term
	K       uint64
	ID      int
	Name    string // for OVar
	NonBV   bool   // contains floating point or uninterpreted function terms
	UB      uint64 // cheap unsigned upper bound of a bit-vector term
}

func computeUB(t *Term) uint64 {
	if t.Sort != SBV {
		return 1
	}
	m := mask(t.W)
	ub := func(x *Term) uint64 {
		if x.Op == OConst {
			return x.K
		}
		return x.UB
	}
	switch t.Op {
	case OConst:
		return t.K
	case OAnd:
		a, b := ub(t.A), ub(t.B)
		if a < b {
			return a
		}
		return b
	case OOr, OXor:
		// bounded by the next power of two minus one of the larger bound
		a, b := ub(t.A), ub(t.B)
		if b > a {
			a = b
		}
		if a == 0 {
			return 0
		}
		n := uint64(1)<<uint(bits.Len64(a)) - 1
		if bits.Len64(a) >= 64 {
			n = ^uint64(0)
		}
		return n & m
	case OLshr:
		if t.B.IsConst() {
			if t.B.K >= uint64(t.W) {
				return 0
			}
			return ub(t.A) >> t.B.K
		}
		return ub(t.A)
	case OZext:
		return ub(t.A)
	case OExtract:
		hi, lo := uint8(t.K>>8), uint8(t.K&0xff)
		if lo == 0 {
			a := ub(t.A)
			if a <= mask(hi+1) {
				return a
			}
		}
		return m
	case OURem:
		if t.B.IsConst() && t.B.K > 0 {
			return t.B.K - 1
		}
		return ub(t.A)
	case OUDiv:
		if t.B.IsConst() && t.B.K > 0 {
			return ub(t.A) / t.B.K
		}
		return ub(t.A)
	case OIte:
		a, b := ub(t.B), ub(t.C)
		if a > b {
			return a
		}
		return b
	case OTable:
		var mx uint64
		for _, v := range ts.tables[t.K].vals {
			if v > mx {
				mx = v
			}
		}
		return mx
	case OAdd:
		a, b := ub(t.A), ub(t.B)
		if a+b >= a && a+b <= m {
			return a + b
		}
		return m
	case OShl:
		if t.B.IsConst() && t.B.K < 64 {
			a := ub(t.A)
			if bits.Len64(a)+int(t.B.K) <= int(t.W) {
				return a << t.B.K
			}
		}
		return m
	case OMul:
		a, b := ub(t.A), ub(t.B)
		hi, lo := bits.Mul64(a, b)
		if hi == 0 && lo <= m {
			return lo
		}
		return m
	}
	return m
}

type termKey struct {
	op      Op
	sort    Sort
	w       uint8
	a, b, c int
	k       uint64
}

type table struct {
	id   int
	w    uint8 // element width
	iw   uint8 // index width
	vals []uint64
}

type TermStore struct {
	tab    map[termKey]*Term
	all    []*Term
	vars   []*Term
	byName map[string]*Term
	tables []*table
	tabKey map[string]*table
	ufs    []ufDecl
	ufKey  map[string]int
}

type ufDecl struct {
	name string
	args []*Term // sample for sorts
	sort Sort
	w    uint8
}

func NewTermStore() *TermStore {
	return &TermStore{tab: map[termKey]*Term{}, byName: map[string]*Term{}, tabKey: map[string]*table{}, ufKey: map[string]int{}}
}

var ts = NewTermStore()

func tid(t *Term) int {
	if t == nil {
		return -1
	}
	return t.ID
}

func (s *TermStore) mk(op Op, sort Sort, w uint8, a, b, c *Term, k uint64) *Term {
	key := termKey{op, sort, w, tid(a), tid(b), tid(c), k}
	t, ok := s.tab[key]
	if !ok {
		t = &Term{Op: op, Sort: sort, W: w, A: a, B: b, C: c, K: k, ID: len(s.all)}
		t.NonBV = sort == SF32 || sort == SF64 || op == OUF || op >= OFPFromBits ||
			(a != nil && a.NonBV) || (b != nil && b.NonBV) || (c != nil && c.NonBV)
		t.UB = computeUB(t)
		s.all = append(s.all, t)
		s.tab[key] = t
	}
	if ex != nil && len(ex.known) > 0 {
		if c, ok := ex.known[t]; ok {
			return c
		}
	}
	return t
}

func mask(w uint8) uint64 {
	if w >= 64 {
		return ^uint64(0)
	}
	return (uint64(1) << w) - 1
}

func sext64(v uint64, w uint8) int64 {
	if w >= 64 {
		return int64(v)
	}
	sh := 64 - uint(w)
	return int64(v<<sh) >> sh
}

func BV(v uint64, w uint8) *Term   { return ts.mk(OConst, SBV, w, nil, nil, nil, v&mask(w)) }
func BoolT(b bool) *Term {
	if b {
		return ts.mk(OConst, SBool, 0, nil, nil, nil, 1)
	}
	return ts.mk(OConst, SBool, 0, nil, nil, nil, 0)
}
func (t *Term) IsConst() bool { return t.Op == OConst }
func (t *Term) IsTrue() bool  { return t.Op == OConst && t.Sort == SBool && t.K == 1 }
func (t *Term) IsFalse() bool { return t.Op == OConst && t.Sort == SBool && t.K == 0 }

// Var returns the (unique) variable of that name.
func Var(name string, sort Sort, w uint8) *Term {
	key := fmt.Sprintf("%s/%d/%d", name, sort, w)
	if t, ok := ts.byName[key]; ok {
		return t
	}
	t := &Term{Op: OVar, Sort: sort, W: w, ID: len(ts.all), Name: name, K: uint64(len(ts.vars)), NonBV: sort == SF32 || sort == SF64, UB: mask(w)}
	ts.all = append(ts.all, t)
	ts.vars = append(ts.vars, t)
	ts.byName[key] = t
	return t
}

func FPConst(bitsv uint64, sort Sort) *Term {
	w := uint8(64)
	if sort == SF32 {
		w = 32
	}
	return ts.mk(OConst, sort, w, nil, nil, nil, bitsv&mask(w))
}

// ---------- bit-vector constructors with simplification ----------

func evalBin(op Op, w uint8, a, b uint64) (uint64, bool) {
	m := mask(w)
	switch op {
	case OAdd:
		return (a + b) & m, true
	case OSub:
		return (a - b) & m, true
	case OMul:
		return (a * b) & m, true
	case OUDiv:
		if b == 0 {
			return m, true
		}
		return (a / b) & m, true
	case OURem:
		if b == 0 {
			return a, true
		}
		return (a % b) & m, true
	case OSDiv:
		sa, sb := sext64(a, w), sext64(b, w)
		if sb == 0 {
			if sa >= 0 {
				return m, true
			}
			return 1, true
		}
		if sb == -1 {
			return uint64(-sa) & m, true
		}
		return uint64(sa/sb) & m, true
	case OSRem:
		sa, sb := sext64(a, w), sext64(b, w)
		if sb == 0 {
			return a, true
		}
		if sb == -1 {
			return 0, true
		}
		return uint64(sa%sb) & m, true
	case OAnd:
		return a & b, true
	case OOr:
		return a | b, true
	case OXor:
		return a ^ b, true
	case OShl:
		if b >= uint64(w) {
			return 0, true
		}
		return (a << b) & m, true
	case OLshr:
		if b >= uint64(w) {
			return 0, true
		}
		return (a >> b) & m, true
	case OAshr:
		sa := sext64(a, w)
		if b >= uint64(w) {
			b = uint64(w) - 1
		}
		return uint64(sa>>b) & m, true
	}
	return 0, false
}

func Bin(op Op, a, b *Term) *Term {
	if a.Sort != SBV || b.Sort != SBV || a.W != b.W {
		panic(fmt.Sprintf("Bin %d: sort mismatch %d/%d vs %d/%d", op, a.Sort, a.W, b.Sort, b.W))
	}
	w := a.W
	if a.IsConst() && b.IsConst() {
		v, _ := evalBin(op, w, a.K, b.K)
		return BV(v, w)
	}
	// canonical: constant on the right for commutative ops
	switch op {
	case OAdd, OMul, OAnd, OOr, OXor:
		if a.IsConst() {
			a, b = b, a
		}
	}
	if b.IsConst() {
		k := b.K
		switch op {
		case OAdd, OSub, OOr, OXor, OShl, OLshr, OAshr:
			if k == 0 {
				return a
			}
		}
		switch op {
		case OMul:
			if k == 0 {
				return b
			}
			if k == 1 {
				return a
			}
			if k&(k-1) == 0 { // power of two -> shift
				return Bin(OShl, a, BV(uint64(bits.TrailingZeros64(k)), w))
			}
		case OAnd:
			if k == 0 {
				return b
			}
			if k == mask(w) {
				return a
			}
		case OOr:
			if k == mask(w) {
				return b
			}
		case OUDiv:
			if k == 1 {
				return a
			}
			if k != 0 && k&(k-1) == 0 {
				return Bin(OLshr, a, BV(uint64(bits.TrailingZeros64(k)), w))
			}
		case OURem:
			if k == 1 {
				return BV(0, w)
			}
			if k != 0 && k&(k-1) == 0 {
				return Bin(OAnd, a, BV(k-1, w))
			}
		case OShl, OLshr:
			if k >= uint64(w) {
				return BV(0, w)
			}
		}
		// (x op c1) op c2 -> x op (c1 op c2) for add / and / or / xor
		if a.Op == op && a.B != nil && a.B.IsConst() {
			switch op {
			case OAdd, OAnd, OOr, OXor:
				v, _ := evalBin(op, w, a.B.K, k)
				return Bin(op, a.A, BV(v, w))
			}
		}
		// shifts of shifts
		if (op == OShl || op == OLshr) && a.Op == op && a.B.IsConst() {
			s := a.B.K + k
			if s >= uint64(w) {
				return BV(0, w)
			}
			return Bin(op, a.A, BV(s, w))
		}
		// (a ± b) & lowmask: low bits depend only on low bits of the operands
		if op == OAnd && k != 0 && k&(k+1) == 0 && (a.Op == OAdd || a.Op == OSub) {
			pa, pb := Bin(OAnd, a.A, b), Bin(OAnd, a.B, b)
			if (pa.IsConst() && !a.A.IsConst()) || (pb.IsConst() && !a.B.IsConst()) {
				return Bin(OAnd, Bin(a.Op, pa, pb), b)
			}
		}
		// (zext x) & mask-of-x-width → zext x ; (zext x) >> k with k >= xw → 0
		if a.Op == OZext {
			xw := a.A.W
			if op == OAnd && k&mask(xw) == mask(xw) {
				return a
			}
			if op == OLshr && k >= uint64(xw) {
				return BV(0, w)
			}
			if op == OAnd && k&mask(xw) == 0 {
				return BV(0, w)
			}
		}
	}
	if a.IsConst() {
		k := a.K
		switch op {
		case OShl, OLshr, OUDiv, OURem, OMul, OAnd:
			if k == 0 {
				return a
			}
		case OSub:
			if k == 0 {
				return Un(ONeg, b)
			}
		}
	}
	if op == OSub && a.Op == OAdd {
		// (x + y) - x = y
		if a.A == b {
			return a.B
		}
		if a.B == b {
			return a.A
		}
	}
	if a == b {
		switch op {
		case OSub, OXor:
			return BV(0, w)
		case OAnd, OOr:
			return a
		}
	}
	return ts.mk(op, SBV, w, a, b, nil, 0)
}

func Un(op Op, a *Term) *Term {
	w := a.W
	if a.IsConst() {
		switch op {
		case ONot:
			return BV(^a.K, w)
		case ONeg:
			return BV(-a.K, w)
		}
	}
	if a.Op == op { // double negation
		return a.A
	}
	return ts.mk(op, SBV, w, a, nil, nil, 0)
}

func Extract(a *Term, hi, lo uint8) *Term {
	if hi < lo || hi >= a.W {
		panic(fmt.Sprintf("bad extract %d:%d of width %d", hi, lo, a.W))
	}
	w := hi - lo + 1
	if w == a.W {
		return a
	}
	if a.IsConst() {
		return BV(a.K>>lo, w)
	}
	switch a.Op {
	case OExtract:
		l0 := uint8(a.K & 0xff)
		return Extract(a.A, hi+l0, lo+l0)
	case OZext:
		xw := a.A.W
		if hi < xw {
			return Extract(a.A, hi, lo)
		}
		if lo >= xw {
			return BV(0, w)
		}
		return Zext(Extract(a.A, xw-1, lo), w)
	case OSext:
		xw := a.A.W
		if hi < xw {
			return Extract(a.A, hi, lo)
		}
	case OConcat:
		bw := a.B.W
		if hi < bw {
			return Extract(a.B, hi, lo)
		}
		if lo >= bw {
			return Extract(a.A, hi-bw, lo-bw)
		}
	case OAnd, OOr, OXor:
		// push extract through bitwise ops when one side is const
		if a.B.IsConst() {
			return Bin(a.Op, Extract(a.A, hi, lo), Extract(a.B, hi, lo))
		}
	case OShl:
		if a.B.IsConst() && lo == 0 && false {
			_ = a
		}
	}
	if lo == 0 {
		switch a.Op {
		case OAdd, OSub, OMul:
			// low bits of modular arithmetic depend only on low bits
			return Bin(a.Op, Extract(a.A, hi, 0), Extract(a.B, hi, 0))
		case ONeg, ONot:
			return Un(a.Op, Extract(a.A, hi, 0))
		}
	}
	return ts.mk(OExtract, SBV, w, a, nil, nil, uint64(hi)<<8|uint64(lo))
}

func Zext(a *Term, w uint8) *Term {
	if w == a.W {
		return a
	}
	if w < a.W {
		return Extract(a, w-1, 0)
	}
	if a.IsConst() {
		return BV(a.K, w)
	}
	if a.Op == OZext {
		return Zext(a.A, w)
	}
	return ts.mk(OZext, SBV, w, a, nil, nil, 0)
}

func Sext(a *Term, w uint8) *Term {
	if w == a.W {
		return a
	}
	if w < a.W {
		return Extract(a, w-1, 0)
	}
	if a.IsConst() {
		return BV(uint64(sext64(a.K, a.W)), w)
	}
	if a.Op == OZext { // zero-extended value is non-negative
		return Zext(a.A, w)
	}
	if a.Op == OSext {
		return Sext(a.A, w)
	}
	return ts.mk(OSext, SBV, w, a, nil, nil, 0)
}

func Concat(a, b *Term) *Term {
	w := a.W + b.W
	if w > 64 {
		panic("concat wider than 64")
	}
	if a.IsConst() && b.IsConst() {
		return BV(a.K<<b.W|b.K, w)
	}
	if a.IsConst() && a.K == 0 {
		return Zext(b, w)
	}
	return ts.mk(OConcat, SBV, w, a, b, nil, 0)
}

func Ite(c, a, b *Term) *Term {
	if c.IsTrue() {
		return a
	}
	if c.IsFalse() {
		return b
	}
	if a == b {
		return a
	}
	if a.Sort == SBool {
		if a.IsTrue() && b.IsFalse() {
			return c
		}
		if a.IsFalse() && b.IsTrue() {
			return Not(c)
		}
	}
	return ts.mk(OIte, a.Sort, a.W, c, a, b, 0)
}

func Cmp(op Op, a, b *Term) *Term {
	if a.Sort != b.Sort || a.W != b.W {
		panic(fmt.Sprintf("Cmp %d: sort mismatch %d/%d vs %d/%d", op, a.Sort, a.W, b.Sort, b.W))
	}
	if a.IsConst() && b.IsConst() && a.Sort != SF32 && a.Sort != SF64 {
		var r bool
		switch op {
		case OEq:
			r = a.K == b.K
		case OUlt:
			r = a.K < b.K
		case OUle:
			r = a.K <= b.K
		case OSlt:
			r = sext64(a.K, a.W) < sext64(b.K, b.W)
		case OSle:
			r = sext64(a.K, a.W) <= sext64(b.K, b.W)
		}
		return BoolT(r)
	}
	if a == b && a.Sort != SF32 && a.Sort != SF64 {
		switch op {
		case OEq, OUle, OSle:
			return BoolT(true)
		default:
			return BoolT(false)
		}
	}
	if op == OEq {
		if a.Sort == SBool {
			if b.IsTrue() {
				return a
			}
			if b.IsFalse() {
				return Not(a)
			}
			if a.IsTrue() {
				return b
			}
			if a.IsFalse() {
				return Not(b)
			}
		}
		if a.IsConst() {
			a, b = b, a
		}
		if a.ID > b.ID && !b.IsConst() {
			a, b = b, a
		}
		// zext(x) == c  where c does not fit → false ; else x == c'
		if b.IsConst() && a.Op == OZext {
			if b.K&^mask(a.A.W) != 0 {
				return BoolT(false)
			}
			return Cmp(OEq, a.A, BV(b.K, a.A.W))
		}
		// ite(c, k1, k2) == k  with constants
		if b.IsConst() && a.Op == OIte && a.B.IsConst() && a.C.IsConst() {
			t1, t2 := a.B.K == b.K, a.C.K == b.K
			switch {
			case t1 && t2:
				return BoolT(true)
			case t1:
				return a.A
			case t2:
				return Not(a.A)
			default:
				return BoolT(false)
			}
		}
	}
	if b.IsConst() && (op == OUlt) && b.K == 0 {
		return BoolT(false)
	}
	if a.Sort == SBV && (op == OUlt || op == OUle) {
		// decided by cheap upper bounds
		if b.IsConst() && !a.IsConst() {
			if (op == OUlt && a.UB < b.K) || (op == OUle && a.UB <= b.K) {
				return BoolT(true)
			}
		}
		if a.IsConst() && !b.IsConst() {
			if (op == OUlt && a.K >= b.UB) || (op == OUle && a.K > b.UB) {
				return BoolT(false)
			}
		}
	}
	if a.IsConst() && (op == OUle) && a.K == 0 {
		return BoolT(true)
	}
	// unsigned compare of zext against const out of range
	if b.IsConst() && a.Op == OZext && (op == OUlt || op == OUle) {
		if b.K > mask(a.A.W) {
			return BoolT(true)
		}
		return Cmp(op, a.A, BV(b.K, a.A.W))
	}
	if a.IsConst() && b.Op == OZext && (op == OUlt || op == OUle) {
		if a.K > mask(b.A.W) {
			return BoolT(false)
		}
		return Cmp(op, BV(a.K, b.A.W), b.A)
	}
	// signed compare of a zext'ed (non-negative) value with a constant
	if a.Op == OZext && b.IsConst() && (op == OSlt || op == OSle) && a.A.W < a.W {
		sb := sext64(b.K, b.W)
		if sb < 0 {
			return BoolT(false)
		}
		if op == OSlt {
			return Cmp(OUlt, a, b)
		}
		return Cmp(OUle, a, b)
	}
	if b.Op == OZext && a.IsConst() && (op == OSlt || op == OSle) && b.A.W < b.W {
		sa := sext64(a.K, a.W)
		if sa < 0 {
			return BoolT(true)
		}
		if op == OSlt {
			return Cmp(OUlt, a, b)
		}
		return Cmp(OUle, a, b)
	}
	return ts.mk(op, SBool, 0, a, b, nil, 0)
}

func Not(a *Term) *Term {
	if a.IsConst() {
		return BoolT(a.K == 0)
	}
	if a.Op == OBNot {
		return a.A
	}
	return ts.mk(OBNot, SBool, 0, a, nil, nil, 0)
}

func And(a, b *Term) *Term {
	if a.IsFalse() || b.IsFalse() {
		return BoolT(false)
	}
	if a.IsTrue() {
		return b
	}
	if b.IsTrue() {
		return a
	}
	if a == b {
		return a
	}
	return ts.mk(OBAnd, SBool, 0, a, b, nil, 0)
}

func Or(a, b *Term) *Term {
	if a.IsTrue() || b.IsTrue() {
		return BoolT(true)
	}
	if a.IsFalse() {
		return b
	}
	if b.IsFalse() {
		return a
	}
	if a == b {
		return a
	}
	return ts.mk(OBOr, SBool, 0, a, b, nil, 0)
}

// TableLookup returns vals[idx] for a constant table.
func TableLookup(vals []uint64, w uint8, idx *Term) *Term {
	if idx.IsConst() {
		return BV(vals[idx.K], w)
	}
	var sb strings.Builder
	fmt.Fprintf(&sb, "%d/%d:", w, idx.W)
	for _, v := range vals {
		fmt.Fprintf(&sb, "%x,", v)
	}
	k := sb.String()
	tb, ok := ts.tabKey[k]
	if !ok {
		tb = &table{id: len(ts.tables), w: w, iw: idx.W, vals: append([]uint64(nil), vals...)}
		ts.tables = append(ts.tables, tb)
		ts.tabKey[k] = tb
	}
	return ts.mk(OTable, SBV, w, idx, nil, nil, uint64(tb.id))
}

// UF applies an uninterpreted function (one per name and signature).
func UF(name string, sort Sort, w uint8, args ...*Term) *Term {
	key := name
	for _, a := range args {
		key += fmt.Sprintf("|%d/%d", a.Sort, a.W)
	}
	key += fmt.Sprintf("->%d/%d", sort, w)
	id, ok := ts.ufKey[key]
	if !ok {
		id = len(ts.ufs)
		ts.ufs = append(ts.ufs, ufDecl{name: fmt.Sprintf("uf%d_%s", id, sanitize(name)), args: args, sort: sort, w: w})
		ts.ufKey[key] = id
	}
	var a, b, c *Term
	switch len(args) {
	case 3:
		c = args[2]
		fallthrough
	case 2:
		b = args[1]
		fallthrough
	case 1:
		a = args[0]
	default:
		panic("UF arity")
	}
	return ts.mk(OUF, sort, w, a, b, c, uint64(id))
}

func sanitize(s string) string {
	var sb strings.Builder
	for _, r := range s {
		if r >= 'a' && r <= 'z' || r >= 'A' && r <= 'Z' || r >= '0' && r <= '9' || r == '_' {
			sb.WriteRune(r)
		} else {
			sb.WriteByte('_')
		}
	}
	return sb.String()
}

// ---------- floating point ----------

func fpw(s Sort) uint8 {
	if s == SF32 {
		return 32
	}
	return 64
}

func FPFromBits(a *Term, s Sort) *Term {
	if a.W != fpw(s) {
		panic("FPFromBits width")
	}
	if a.IsConst() {
		return FPConst(a.K, s)
	}
	if a.Op == OFPToBits && a.A.Sort == s {
		return a.A
	}
	return ts.mk(OFPFromBits, s, a.W, a, nil, nil, 0)
}

func FPToBits(a *Term) *Term {
	if a.IsConst() {
		return BV(a.K, a.W)
	}
	if a.Op == OFPFromBits {
		return a.A // Go's Float64bits(Float64frombits(x)) == x exactly
	}
	return ts.mk(OFPToBits, SBV, a.W, a, nil, nil, 0)
}

func fpConstVal(t *Term) float64 {
	if t.Sort == SF32 {
		return float64(math.Float32frombits(uint32(t.K)))
	}
	return math.Float64frombits(t.K)
}

func fpMk(v float64, s Sort) *Term {
	if s == SF32 {
		return FPConst(uint64(math.Float32bits(float32(v))), s)
	}
	return FPConst(math.Float64bits(v), s)
}

func FPBin(op Op, a, b *Term) *Term {
	if a.IsConst() && b.IsConst() {
		x, y := fpConstVal(a), fpConstVal(b)
		var r float64
		if a.Sort == SF32 {
			x32, y32 := float32(x), float32(y)
			var r32 float32
			switch op {
			case OFPAdd:
				r32 = x32 + y32
			case OFPSub:
				r32 = x32 - y32
			case OFPMul:
				r32 = x32 * y32
			case OFPDiv:
				r32 = x32 / y32
			}
			return FPConst(uint64(math.Float32bits(r32)), SF32)
		}
		switch op {
		case OFPAdd:
			r = x + y
		case OFPSub:
			r = x - y
		case OFPMul:
			r = x * y
		case OFPDiv:
			r = x / y
		}
		return fpMk(r, a.Sort)
	}
	return ts.mk(op, a.Sort, a.W, a, b, nil, 0)
}

func FPNeg(a *Term) *Term {
	if a.IsConst() {
		return FPConst(a.K^(uint64(1)<<(a.W-1)), a.Sort)
	}
	return ts.mk(OFPNeg, a.Sort, a.W, a, nil, nil, 0)
}

func FPCmp(op Op, a, b *Term) *Term {
	if a.IsConst() && b.IsConst() {
		x, y := fpConstVal(a), fpConstVal(b)
		switch op {
		case OFPLt:
			return BoolT(x < y)
		case OFPLe:
			return BoolT(x <= y)
		case OFPEq:
			return BoolT(x == y)
		}
	}
	return ts.mk(op, SBool, 0, a, b, nil, 0)
}

func FPPred(op Op, a *Term) *Term {
	if a.IsConst() {
		x := fpConstVal(a)
		if op == OFPIsNaN {
			return BoolT(math.IsNaN(x))
		}
		return BoolT(math.IsInf(x, 0))
	}
	return ts.mk(op, SBool, 0, a, nil, nil, 0)
}

func FPToFP(a *Term, s Sort) *Term {
	if a.Sort == s {
		return a
	}
	if a.IsConst() {
		return fpMk(fpConstVal(a), s)
	}
	return ts.mk(OFPToFP, s, fpw(s), a, nil, nil, 0)
}

func FPFromInt(a *Term, signed bool, s Sort) *Term {
	if a.IsConst() {
		var f float64
		if signed {
			if s == SF32 {
				return FPConst(uint64(math.Float32bits(float32(sext64(a.K, a.W)))), s)
			}
			f = float64(sext64(a.K, a.W))
		} else {
			if s == SF32 {
				return FPConst(uint64(math.Float32bits(float32(a.K))), s)
			}
			f = float64(a.K)
		}
		return fpMk(f, s)
	}
	op := OFPFromU
	if signed {
		op = OFPFromS
	}
	return ts.mk(op, s, fpw(s), a, nil, nil, 0)
}

func FPToInt(a *Term, signed bool, w uint8) *Term {
	op := OFPToU
	if signed {
		op = OFPToS
	}
	return ts.mk(op, SBV, w, a, nil, nil, 0)
}

func FPFrom16(a *Term) *Term {
	if a.W != 16 {
		panic("FPFrom16 width")
	}
	return ts.mk(OFPFrom16, SF32, 32, a, nil, nil, 0)
}

// ---------- SMT-LIB printing ----------

func sortStr(s Sort, w uint8) string {
	switch s {
	case SBool:
		return "Bool"
	case SBV:
		return fmt.Sprintf("(_ BitVec %d)", w)
	case SF32:
		return "(_ FloatingPoint 8 24)"
	default:
		return "(_ FloatingPoint 11 53)"
	}
}

func bvLit(v uint64, w uint8) string {
	if w%4 == 0 {
		return fmt.Sprintf("#x%0*x", int(w/4), v&mask(w))
	}
	return fmt.Sprintf("#b%0*b", int(w), v&mask(w))
}

func (t *Term) ref() string {
	switch t.Op {
	case OConst:
		switch t.Sort {
		case SBool:
			if t.K == 1 {
				return "true"
			}
			return "false"
		case SBV:
			return bvLit(t.K, t.W)
		case SF32:
			return fmt.Sprintf("((_ to_fp 8 24) %s)", bvLit(t.K, 32))
		case SF64:
			return fmt.Sprintf("((_ to_fp 11 53) %s)", bvLit(t.K, 64))
		}
	case OVar:
		return fmt.Sprintf("v%d", t.K)
	}
	return fmt.Sprintf("t%d", t.ID)
}

var opNames = map[Op]string{
	OAdd: "bvadd", OSub: "bvsub", OMul: "bvmul", OUDiv: "bvudiv", OURem: "bvurem", OSDiv: "bvsdiv", OSRem: "bvsrem",
	OAnd: "bvand", OOr: "bvor", OXor: "bvxor", ONot: "bvnot", ONeg: "bvneg", OShl: "bvshl", OLshr: "bvlshr", OAshr: "bvashr",
	OConcat: "concat", OIte: "ite", OEq: "=", OUlt: "bvult", OUle: "bvule", OSlt: "bvslt", OSle: "bvsle",
	OBAnd: "and", OBOr: "or", OBNot: "not",
	OFPAdd: "fp.add RNE", OFPSub: "fp.sub RNE", OFPMul: "fp.mul RNE", OFPDiv: "fp.div RNE", OFPNeg: "fp.neg",
	OFPLt: "fp.lt", OFPLe: "fp.leq", OFPEq: "fp.eq", OFPIsNaN: "fp.isNaN", OFPIsInf: "fp.isInfinite",
}

func fpParams(s Sort) string {
	if s == SF32 {
		return "8 24"
	}
	return "11 53"
}

// body returns the SMT-LIB expression of t in terms of the refs of its children.
func (t *Term) body() string {
	switch t.Op {
	case OExtract:
		return fmt.Sprintf("((_ extract %d %d) %s)", t.K>>8, t.K&0xff, t.A.ref())
	case OZext:
		return fmt.Sprintf("((_ zero_extend %d) %s)", t.W-t.A.W, t.A.ref())
	case OSext:
		return fmt.Sprintf("((_ sign_extend %d) %s)", t.W-t.A.W, t.A.ref())
	case OTable:
		return fmt.Sprintf("(tbl%d %s)", t.K, t.A.ref())
	case OFPFromBits:
		return fmt.Sprintf("((_ to_fp %s) %s)", fpParams(t.Sort), t.A.ref())
	case OFPToBits:
		return fmt.Sprintf("(fp.to_ieee_bv %s)", t.A.ref())
	case OFPToFP:
		return fmt.Sprintf("((_ to_fp %s) RNE %s)", fpParams(t.Sort), t.A.ref())
	case OFPFromS:
		return fmt.Sprintf("((_ to_fp %s) RNE %s)", fpParams(t.Sort), t.A.ref())
	case OFPFromU:
		return fmt.Sprintf("((_ to_fp_unsigned %s) RNE %s)", fpParams(t.Sort), t.A.ref())
	case OFPToS:
		return fmt.Sprintf("((_ fp.to_sbv %d) RTZ %s)", t.W, t.A.ref())
	case OFPToU:
		return fmt.Sprintf("((_ fp.to_ubv %d) RTZ %s)", t.W, t.A.ref())
	case OFPFrom16:
		return fmt.Sprintf("((_ to_fp 8 24) RNE ((_ to_fp 5 11) %s))", t.A.ref())
	case OUF:
		s := "(" + ts.ufs[t.K].name
		for _, a := range []*Term{t.A, t.B, t.C} {
			if a != nil {
				s += " " + a.ref()
			}
		}
		return s + ")"
	case OEq:
		if t.A.Sort == SF32 || t.A.Sort == SF64 {
			return fmt.Sprintf("(= %s %s)", t.A.ref(), t.B.ref())
		}
	}
	name, ok := opNames[t.Op]
	if !ok {
		panic(fmt.Sprintf("no SMT name for op %d", t.Op))
	}
	s := "(" + name
	for _, a := range []*Term{t.A, t.B, t.C} {
		if a != nil {
			s += " " + a.ref()
		}
	}
	return s + ")"
}

func (tb *table) define() string {
	var sb strings.Builder
	fmt.Fprintf(&sb, "(define-fun tbl%d ((i (_ BitVec %d))) (_ BitVec %d) ", tb.id, tb.iw, tb.w)
	n := len(tb.vals)
	for i := 0; i < n-1; i++ {
		fmt.Fprintf(&sb, "(ite (= i %s) %s ", bvLit(uint64(i), tb.iw), bvLit(tb.vals[i], tb.w))
	}
	sb.WriteString(bvLit(tb.vals[n-1], tb.w))
	sb.WriteString(strings.Repeat(")", n-1))
	sb.WriteString(")")
	return sb.String()
}

// ---------- concrete evaluation ----------

type Model struct {
	vals map[string]uint64
	memo map[*Term]uint64
	// ok=false when evaluation met something it cannot compute exactly (UF, fp.to_ieee of NaN)
}

func NewModel(vals map[string]uint64) *Model {
	if vals == nil {
		vals = map[string]uint64{}
	}
	return &Model{vals: vals, memo: map[*Term]uint64{}}
}

type evalUnknown struct{ why string }

// Eval evaluates t under m. FP values are represented by their IEEE bits.
// It panics with evalUnknown if the term contains an uninterpreted function.
func (m *Model) Eval(t *Term) uint64 {
	if t.Op == OConst {
		return t.K
	}
	if v, ok := m.memo[t]; ok {
		return v
	}
	v := m.eval1(t)
	m.memo[t] = v
	return v
}

func (m *Model) TryEval(t *Term) (v uint64, ok bool) {
	defer func() {
		if r := recover(); r != nil {
			if _, is := r.(evalUnknown); is {
				ok = false
				return
			}
			panic(r)
		}
	}()
	return m.Eval(t), true
}

func b2u(b bool) uint64 {
	if b {
		return 1
	}
	return 0
}

func fpOf(bitsv uint64, s Sort) float64 {
	if s == SF32 {
		return float64(math.Float32frombits(uint32(bitsv)))
	}
	return math.Float64frombits(bitsv)
}

func fpBits(v float64, s Sort) uint64 {
	if s == SF32 {
		return uint64(math.Float32bits(float32(v)))
	}
	return math.Float64bits(v)
}

func f16to32(h uint16) float32 {
	sign := uint32(h>>15) & 1
	exp := int(h>>10) & 0x1f
	frac := uint32(h & 0x3ff)
	var f float64
	switch {
	case exp == 0:
		f = math.Ldexp(float64(frac), -24)
	case exp == 31:
		if frac == 0 {
			f = math.Inf(1)
		} else {
			f = math.NaN()
		}
	default:
		f = math.Ldexp(float64(frac|0x400), exp-25)
	}
	if sign == 1 {
		f = -f
		if f == 0 {
			f = math.Copysign(0, -1)
		}
	}
	return float32(f)
}

func (m *Model) eval1(t *Term) uint64 {
	switch t.Op {
	case OVar:
		return m.vals[t.Name] & mask(t.W|b2u8(t.Sort == SBool))
	case OAdd, OSub, OMul, OUDiv, OURem, OSDiv, OSRem, OAnd, OOr, OXor, OShl, OLshr, OAshr:
		v, _ := evalBin(t.Op, t.W, m.Eval(t.A), m.Eval(t.B))
		return v
	case ONot:
		return ^m.Eval(t.A) & mask(t.W)
	case ONeg:
		return -m.Eval(t.A) & mask(t.W)
	case OConcat:
		return m.Eval(t.A)<<t.B.W | m.Eval(t.B)
	case OExtract:
		hi, lo := uint8(t.K>>8), uint8(t.K&0xff)
		return (m.Eval(t.A) >> lo) & mask(hi-lo+1)
	case OZext:
		return m.Eval(t.A)
	case OSext:
		return uint64(sext64(m.Eval(t.A), t.A.W)) & mask(t.W)
	case OIte:
		if m.Eval(t.A) != 0 {
			return m.Eval(t.B)
		}
		return m.Eval(t.C)
	case OEq:
		if t.A.Sort == SF32 || t.A.Sort == SF64 {
			// SMT '=' on FP: identical values, all NaNs equal, +0 != -0
			a, b := m.Eval(t.A), m.Eval(t.B)
			fa, fb := fpOf(a, t.A.Sort), fpOf(b, t.A.Sort)
			if math.IsNaN(fa) || math.IsNaN(fb) {
				return b2u(math.IsNaN(fa) && math.IsNaN(fb))
			}
			return b2u(a == b)
		}
		return b2u(m.Eval(t.A) == m.Eval(t.B))
	case OUlt:
		return b2u(m.Eval(t.A) < m.Eval(t.B))
	case OUle:
		return b2u(m.Eval(t.A) <= m.Eval(t.B))
	case OSlt:
		return b2u(sext64(m.Eval(t.A), t.A.W) < sext64(m.Eval(t.B), t.A.W))
	case OSle:
		return b2u(sext64(m.Eval(t.A), t.A.W) <= sext64(m.Eval(t.B), t.A.W))
	case OBAnd:
		return m.Eval(t.A) & m.Eval(t.B)
	case OBOr:
		return m.Eval(t.A) | m.Eval(t.B)
	case OBNot:
		return m.Eval(t.A) ^ 1
	case OTable:
		tb := ts.tables[t.K]
		i := m.Eval(t.A)
		if i >= uint64(len(tb.vals)) {
			return tb.vals[len(tb.vals)-1]
		}
		return tb.vals[i]
	case OFPFromBits:
		return m.Eval(t.A)
	case OFPToBits:
		v := m.Eval(t.A)
		if f := fpOf(v, t.A.Sort); math.IsNaN(f) {
			panic(evalUnknown{"fp.to_ieee_bv of NaN"})
		}
		return v
	case OFPAdd, OFPSub, OFPMul, OFPDiv:
		a, b := m.Eval(t.A), m.Eval(t.B)
		if t.Sort == SF32 {
			x, y := math.Float32frombits(uint32(a)), math.Float32frombits(uint32(b))
			var r float32
			switch t.Op {
			case OFPAdd:
				r = x + y
			case OFPSub:
				r = x - y
			case OFPMul:
				r = x * y
			case OFPDiv:
				r = x / y
			}
			return uint64(math.Float32bits(r))
		}
		x, y := math.Float64frombits(a), math.Float64frombits(b)
		var r float64
		switch t.Op {
		case OFPAdd:
			r = x + y
		case OFPSub:
			r = x - y
		case OFPMul:
			r = x * y
		case OFPDiv:
			r = x / y
		}
		return math.Float64bits(r)
	case OFPNeg:
		return m.Eval(t.A) ^ (uint64(1) << (t.W - 1))
	case OFPLt:
		return b2u(fpOf(m.Eval(t.A), t.A.Sort) < fpOf(m.Eval(t.B), t.A.Sort))
	case OFPLe:
		return b2u(fpOf(m.Eval(t.A), t.A.Sort) <= fpOf(m.Eval(t.B), t.A.Sort))
	case OFPEq:
		return b2u(fpOf(m.Eval(t.A), t.A.Sort) == fpOf(m.Eval(t.B), t.A.Sort))
	case OFPIsNaN:
		return b2u(math.IsNaN(fpOf(m.Eval(t.A), t.A.Sort)))
	case OFPIsInf:
		return b2u(math.IsInf(fpOf(m.Eval(t.A), t.A.Sort), 0))
	case OFPToFP:
		return fpBits(fpOf(m.Eval(t.A), t.A.Sort), t.Sort)
	case OFPFromS:
		v := sext64(m.Eval(t.A), t.A.W)
		if t.Sort == SF32 {
			return uint64(math.Float32bits(float32(v)))
		}
		return math.Float64bits(float64(v))
	case OFPFromU:
		v := m.Eval(t.A)
		if t.Sort == SF32 {
			return uint64(math.Float32bits(float32(v)))
		}
		return math.Float64bits(float64(v))
	case OFPToS:
		f := math.Trunc(fpOf(m.Eval(t.A), t.A.Sort))
		lim := math.Ldexp(1, int(t.W)-1)
		if math.IsNaN(f) || f >= lim || f < -lim {
			panic(evalUnknown{"fp.to_sbv out of range"})
		}
		return uint64(int64(f)) & mask(t.W)
	case OFPToU:
		f := math.Trunc(fpOf(m.Eval(t.A), t.A.Sort))
		lim := math.Ldexp(1, int(t.W))
		if math.IsNaN(f) || f >= lim || f < 0 {
			panic(evalUnknown{"fp.to_ubv out of range"})
		}
		return uint64(f) & mask(t.W)
	case OFPFrom16:
		return uint64(math.Float32bits(f16to32(uint16(m.Eval(t.A)))))
	case OUF:
		panic(evalUnknown{"uninterpreted function"})
	}
	panic(fmt.Sprintf("eval: op %d", t.Op))
}

func b2u8(b bool) uint8 {
	if b {
		return 1
	}
	return 0
}
