package interp

// Driver API: build an interpreter over an SSA program, run package
// initialisers tolerantly, explore a harness function.

import (
	"fmt"
	"go/token"
	"go/types"
	"os"
	"runtime"
	"sort"
	"strings"
	"time"

	"golang.org/x/tools/go/ssa"
)

const maxCallDepth = 2000

type engineAbort struct{ why string }

type Engine struct {
	i    *interpreter
	prog *ssa.Program
}

type Options struct {
	SolverBin  string
	TimeoutMs  int
	MaxSteps   int64
	SplitMax   int
	MaxViol    int
	SolverLog  string
	Trace      bool
	InitAllow  func(string) bool
}

func isEngineBug(e runtime.Error) bool {
	if _, ok := e.(runtimeError); ok {
		return false
	}
	m := e.Error()
	return strings.Contains(m, "interp.") || strings.Contains(m, "is nil, not") && strings.Contains(m, "interface conversion: interface {}")
}

var defaultDeny = map[string]bool{
	"runtime": true, "os": true, "syscall": true, "time": true, "reflect": true, "internal/reflectlite": true,
	"internal/poll": true, "internal/syscall/unix": true, "internal/testlog": true, "os/signal": true, "os/exec": true,
	"net": true, "net/http": true, "crypto/rand": true, "internal/godebug": true, "internal/cpu": true,
	"log": true, "flag": true, "testing": true, "runtime/debug": true, "runtime/pprof": true, "os/user": true,
	"internal/oserror": false, "io/fs": false, "path/filepath": true, "internal/filepathlite": true, "embed": true,
}

func NewEngine(prog *ssa.Program, opts Options) (*Engine, error) {
	i := &interpreter{
		prog:       prog,
		globals:    make(map[*ssa.Global]*value),
		sizes:      &types.StdSizes{WordSize: 8, MaxAlign: 8},
		goroutines: 1,
		extCache:   map[*ssa.Function]externalFn{},
		initDone:   map[*ssa.Package]bool{},
		initFailed: map[string]string{},
	}
	if opts.Trace {
		i.mode |= EnableTracing
	}
	i.initAllow = opts.InitAllow
	if i.initAllow == nil {
		i.initAllow = func(p string) bool { return !defaultDeny[p] }
	}
	runtimePkg := prog.ImportedPackage("runtime")
	if runtimePkg == nil {
		return nil, fmt.Errorf("ssa.Program doesn't include runtime package")
	}
	i.runtimeErrorString = runtimePkg.Type("errorString").Object().Type()
	initReflect(i)
	for _, pkg := range prog.AllPackages() {
		for _, m := range pkg.Members {
			if v, ok := m.(*ssa.Global); ok {
				cell := zero(mustDeref(v.Type()))
				i.globals[v] = &cell
			}
		}
	}
	ex = &Explorer{}
	ex.reset("init", opts)
	ex.concrete = map[string]uint64{}
	ex.maxSteps = 1 << 62
	return &Engine{i: i, prog: prog}, nil
}

func (e *Explorer) reset(harness string, opts Options) {
	e.harness = harness
	e.stats = Stats{Asserts: map[string]int{}, Covers: map[string]*CoverInfo{}, Funcs: map[string]int{}, Stubs: map[string]int{}, Assumes: map[string]int{}}
	e.viol = nil
	e.work = nil
	e.violSeen = map[string]bool{}
	e.maxSteps = opts.MaxSteps
	if e.maxSteps == 0 {
		e.maxSteps = 2_000_000
	}
	e.splitMax = opts.SplitMax
	if e.splitMax == 0 {
		e.splitMax = 70
	}
	e.maxViol = opts.MaxViol
	if e.maxViol == 0 {
		e.maxViol = 8
	}
	e.concrete = nil
	e.model = NewModel(nil)
	e.inputSet = map[string]bool{}
	e.nameCnt = map[string]int{}
}

// runPackageInit runs a package initializer once, tolerantly.
func runPackageInit(i *interpreter, fr *frame, fn *ssa.Function) (res value) {
	pkg := fn.Pkg
	if i.initDone[pkg] {
		return nil
	}
	i.initDone[pkg] = true
	path := pkg.Pkg.Path()
	if !i.initAllow(path) {
		i.initFailed[path] = "skipped (deny list)"
		return nil
	}
	defer func() {
		if r := recover(); r != nil {
			i.initFailed[path] = fmt.Sprint(panicString(r))
			res = nil
		}
	}()
	return runBody(i, fr, fn, nil, nil)
}

func panicString(r interface{}) string {
	switch p := r.(type) {
	case targetPanic:
		return "panic: " + toString(p.v)
	case runtime.Error:
		return "runtime error: " + p.Error()
	case unsupported:
		return "unsupported: " + p.what
	case pathEnd:
		return "path end: " + p.why
	case engineAbort:
		return "abort: " + p.why
	case string:
		return p
	}
	return fmt.Sprintf("%T: %v", r, r)
}

// InitPackages runs the initializers of the given packages (and, through
// them, of their dependencies).
func (e *Engine) InitPackages(pkgs []*ssa.Package) map[string]string {
	for _, p := range pkgs {
		if fn := p.Func("init"); fn != nil {
			func() {
				defer func() {
					if r := recover(); r != nil {
						e.i.initFailed[p.Pkg.Path()] = panicString(r)
					}
				}()
				call(e.i, nil, token.NoPos, fn, nil)
			}()
		}
	}
	return e.i.initFailed
}

type PathResult struct {
	Status string // "done", "infeasible", "inconclusive"
}

type ExploreResult struct {
	Harness    string      `json:"harness"`
	Stats      Stats       `json:"stats"`
	Violations []Violation `json:"violations"`
	Leftover   []WorkItem  `json:"leftover"`
	Solver     struct {
		Queries int     `json:"queries"`
		Sat     int     `json:"sat"`
		Unsat   int     `json:"unsat"`
		Unknown int     `json:"unknown"`
		TimeS   float64 `json:"time_s"`
		Errors  []string `json:"errors,omitempty"`
	} `json:"solver"`
	WallS float64 `json:"wall_s"`
}

var sharedSolver *Solver

func getSolver(opts Options) (*Solver, error) {
	if sharedSolver != nil {
		return sharedSolver, nil
	}
	bin := opts.SolverBin
	if bin == "" {
		bin = "z3"
	}
	var logw *os.File
	if opts.SolverLog != "" {
		f, err := os.Create(opts.SolverLog)
		if err != nil {
			return nil, err
		}
		logw = f
	}
	var err error
	if logw != nil {
		sharedSolver, err = NewSolver(bin, opts.TimeoutMs, logw)
	} else {
		sharedSolver, err = NewSolver(bin, opts.TimeoutMs, nil)
	}
	return sharedSolver, err
}

// Explore runs the harness from the given work items depth-first until the
// local work list is empty or the time budget is used up; unexplored items are
// returned as Leftover.
func (e *Engine) Explore(fn *ssa.Function, items []WorkItem, budget time.Duration, opts Options) (*ExploreResult, error) {
	start := time.Now()
	s, err := getSolver(opts)
	if err != nil {
		return nil, err
	}
	q0, s0, u0, k0, t0, e0 := s.Queries, s.QSat, s.QUnsat, s.QUnknown, s.Time, len(s.Errors)
	ex.reset(fn.String(), opts)
	ex.solver = s
	ex.symbolic = true
	ex.work = append(ex.work, items...)
	for len(ex.work) > 0 {
		if budget > 0 && time.Since(start) > budget {
			break
		}
		item := ex.work[len(ex.work)-1]
		ex.work = ex.work[:len(ex.work)-1]
		e.runPath(fn, item)
		if len(ts.all) > 3_000_000 {
			// bound memory: forget all terms (safe between paths)
			ts = NewTermStore()
			s.Restart()
		}
	}
	res := &ExploreResult{Harness: fn.String(), Stats: ex.stats, Violations: ex.viol, Leftover: ex.work}
	res.Solver.Queries, res.Solver.Sat, res.Solver.Unsat, res.Solver.Unknown = s.Queries-q0, s.QSat-s0, s.QUnsat-u0, s.QUnknown-k0
	res.Solver.TimeS = (s.Time - t0).Seconds()
	res.Solver.Errors = append([]string(nil), s.Errors[e0:]...)
	if len(res.Solver.Errors) > 0 {
		res.Stats.Inconclusive = append(res.Stats.Inconclusive, "solver error: "+res.Solver.Errors[0])
	}
	res.WallS = time.Since(start).Seconds()
	ex.work = nil
	return res, nil
}

// RunConcrete executes the harness once with concrete inputs.
func (e *Engine) RunConcrete(fn *ssa.Function, inputs map[string]uint64, opts Options) *ExploreResult {
	start := time.Now()
	ex.reset(fn.String(), opts)
	ex.concrete = inputs
	if ex.concrete == nil {
		ex.concrete = map[string]uint64{}
	}
	ex.solver = nil
	e.runPath(fn, WorkItem{Model: inputs})
	res := &ExploreResult{Harness: fn.String(), Stats: ex.stats, Violations: ex.viol}
	res.WallS = time.Since(start).Seconds()
	return res
}

func (e *Engine) runPath(fn *ssa.Function, item WorkItem) {
	ex.beginPath(item)
	ex.stats.Paths++
	ex.threads = nil
	resetSideTables()
	atomicClocks = map[*value]vclock{}
	defer func() {
		if ex.threads != nil {
			ex.threads.teardown()
			ex.stats.Assumes["scheduling points"] += ex.threads.points
			ex.stats.Assumes["thread switches"] += ex.threads.switches
			ex.threads = nil
		}
	}()
	defer func() {
		if ex.steps > ex.stats.MaxSteps {
			ex.stats.MaxSteps = ex.steps
		}
		ex.stats.Steps += ex.steps
		r := recover()
		if ex.pos < len(ex.prefix) && r == nil {
			ex.inconclusive("engine: path ended before its decision prefix was consumed (non-determinism)")
		}
		switch p := r.(type) {
		case nil:
			ex.stats.PathsDone++
			if len(ex.stats.Samples) < 3 && ex.concrete == nil {
				ex.stats.Samples = append(ex.stats.Samples, Sample{Model: ex.modelSnapshot(), Decisions: len(ex.path), Outcome: "done"})
			}
		case pathEnd:
			if p.why == "unknown" {
				return
			}
			ex.stats.PathsInfeas++
		case unsupported:
			ex.inconclusive("unsupported: " + p.what)
		case engineAbort:
			if strings.HasPrefix(p.why, "deadlock") {
				ex.stats.PathsDone++
				ex.recordViolation("deadlock", p.why, "", ex.model.vals)
				return
			}
			ex.inconclusive(p.why)
			if p.why == "step budget exceeded" {
				ex.recordViolation("nonterm", "step budget exceeded (possible non-termination)", "", ex.model.vals)
			}
		case targetPanic:
			ex.stats.PathsDone++
			ex.recordViolation("panic", "panic: "+truncate(toString(p.v), 300), "", ex.model.vals)
		case runtime.Error:
			if isEngineBug(p) {
				ex.inconclusive("engine: " + p.Error() + " @ " + whereAmI())
				return
			}
			ex.stats.PathsDone++
			ex.recordViolation("panic", "runtime error: "+p.Error(), "", ex.model.vals)
		case string:
			ex.inconclusive("engine: " + p)
		default:
			ex.inconclusive(fmt.Sprintf("engine: unexpected panic %T %v", r, r))
		}
	}()
	call(e.i, nil, token.NoPos, fn, nil)
}

func truncate(s string, n int) string {
	if len(s) > n {
		return s[:n] + "…"
	}
	return s
}

func whereAmI() string {
	buf := make([]byte, 4096)
	n := runtime.Stack(buf, false)
	lines := strings.Split(string(buf[:n]), "\n")
	var keep []string
	for _, l := range lines {
		if strings.Contains(l, "/interp/") && strings.Contains(l, ".go:") {
			keep = append(keep, strings.TrimSpace(l))
			if len(keep) >= 4 {
				break
			}
		}
	}
	return strings.Join(keep, " <- ")
}

func (e *Engine) InitFailed() []string {
	var out []string
	for k, v := range e.i.initFailed {
		out = append(out, k+": "+truncate(v, 160))
	}
	sort.Strings(out)
	return out
}
