package interp

// One long-lived `z3 -in` process. Terms are sent once as global define-funs
// (global-declarations on), path conditions live inside push/pop.

import (
	"bufio"
	"fmt"
	"io"
	"os"
	"os/exec"
	"strconv"
	"strings"
	"time"
)

type Solver struct {
	cmd       *exec.Cmd
	in        io.WriteCloser
	out       *bufio.Reader
	emitted   map[int]bool // term ids defined
	nvars     int
	ntables   int
	nufs      int
	depth     int
	Queries   int
	QSat      int
	QUnsat    int
	QUnknown  int
	Time      time.Duration
	timeoutMs int
	log       io.Writer
	bin       string
	Errors    []string
	nonBV     []int // per push level: number of asserted terms that are not pure bit-vector
	tactic    bool  // use (check-sat-using qfbv) for pure bit-vector queries
	lines     chan string
	stack     [][]*Term // asserted terms per push level (to rebuild the context after a restart)
	Restarts  int
}

func NewSolver(bin string, timeoutMs int, logw io.Writer) (*Solver, error) {
	s := &Solver{bin: bin, timeoutMs: timeoutMs, log: logw}
	if err := s.start(); err != nil {
		return nil, err
	}
	return s, nil
}

func (s *Solver) start() error {
	args := []string{"-in"}
	if strings.Contains(s.bin, "cvc5") {
		args = []string{"--incremental", "--lang=smt2", "--produce-models"}
	}
	cmd := exec.Command(s.bin, args...)
	in, err := cmd.StdinPipe()
	if err != nil {
		return err
	}
	out, err := cmd.StdoutPipe()
	if err != nil {
		return err
	}
	cmd.Stderr = os.Stderr
	if err := cmd.Start(); err != nil {
		return err
	}
	s.cmd, s.in, s.out = cmd, in, bufio.NewReaderSize(out, 1<<16)
	lines := make(chan string, 1024)
	s.lines = lines
	go func(r *bufio.Reader) {
		for {
			l, err := r.ReadString('\n')
			if err != nil {
				lines <- "(error \"solver died\")"
				close(lines)
				return
			}
			lines <- l
		}
	}(s.out)
	s.emitted = map[int]bool{}
	s.nvars, s.ntables, s.nufs, s.depth = 0, 0, 0, 0
	s.nonBV = []int{0}
	if s.stack == nil {
		s.stack = [][]*Term{nil}
	}
	s.tactic = !strings.Contains(s.bin, "cvc5") && os.Getenv("GOSYM_NO_TACTIC") == ""
	s.send("(set-option :global-declarations true)")
	s.send("(set-option :produce-models true)")
	if strings.Contains(s.bin, "cvc5") {
		s.send("(set-logic ALL)")
	}
	if s.timeoutMs > 0 && !strings.Contains(s.bin, "cvc5") {
		s.send(fmt.Sprintf("(set-option :timeout %d)", s.timeoutMs))
	}
	return nil
}

func (s *Solver) Close() {
	if s.cmd != nil {
		s.in.Close()
		s.cmd.Process.Kill()
		s.cmd.Wait()
		s.cmd = nil
	}
}

// Restart drops all solver state (used to bound memory on long runs).
func (s *Solver) Restart() error {
	s.Close()
	s.stack = nil
	return s.start()
}

func (s *Solver) send(line string) {
	if s.log != nil {
		fmt.Fprintln(s.log, line)
	}
	io.WriteString(s.in, line)
	io.WriteString(s.in, "\n")
}

// readLine returns the next non-empty output line, or "timeout" if the solver
// does not answer within the per-query limit plus a grace period (the caller
// then restarts the solver).
func (s *Solver) readLine() string {
	limit := time.Duration(s.timeoutMs)*2*time.Millisecond + 20*time.Second
	for {
		var l string
		var ok bool
		select {
		case l, ok = <-s.lines:
			if !ok {
				return "(error \"solver died\")"
			}
		case <-time.After(limit):
			return "timeout"
		}
		l = strings.TrimSpace(l)
		if l == "" {
			continue
		}
		if s.log != nil {
			fmt.Fprintln(s.log, "; <- "+l)
		}
		return l
	}
}

// define makes sure t and everything below it is known to the solver.
func (s *Solver) define(t *Term) {
	if t.Op == OConst {
		return
	}
	if s.emitted[t.ID] {
		return
	}
	// iterative post-order to survive deep DAGs
	type item struct {
		t    *Term
		done bool
	}
	stack := []item{{t, false}}
	for len(stack) > 0 {
		it := stack[len(stack)-1]
		stack = stack[:len(stack)-1]
		x := it.t
		if x.Op == OConst || s.emitted[x.ID] {
			continue
		}
		if !it.done {
			stack = append(stack, item{x, true})
			for _, c := range []*Term{x.A, x.B, x.C} {
				if c != nil && c.Op != OConst && !s.emitted[c.ID] {
					stack = append(stack, item{c, false})
				}
			}
			continue
		}
		s.emitted[x.ID] = true
		switch x.Op {
		case OVar:
			s.send(fmt.Sprintf("(declare-const v%d %s)", x.K, sortStr(x.Sort, x.W)))
		case OTable:
			for s.ntables <= int(x.K) {
				s.send(ts.tables[s.ntables].define())
				s.ntables++
			}
			s.send(fmt.Sprintf("(define-fun t%d () %s %s)", x.ID, sortStr(x.Sort, x.W), x.body()))
		case OUF:
			for s.nufs <= int(x.K) {
				u := ts.ufs[s.nufs]
				sig := ""
				for _, a := range u.args {
					sig += sortStr(a.Sort, a.W) + " "
				}
				s.send(fmt.Sprintf("(declare-fun %s (%s) %s)", u.name, sig, sortStr(u.sort, u.w)))
				s.nufs++
			}
			s.send(fmt.Sprintf("(define-fun t%d () %s %s)", x.ID, sortStr(x.Sort, x.W), x.body()))
		default:
			s.send(fmt.Sprintf("(define-fun t%d () %s %s)", x.ID, sortStr(x.Sort, x.W), x.body()))
		}
	}
}

func (s *Solver) Push() {
	s.send("(push 1)")
	s.depth++
	s.nonBV = append(s.nonBV, 0)
	s.stack = append(s.stack, nil)
}

func (s *Solver) Pop(n int) {
	if n <= 0 {
		return
	}
	s.send(fmt.Sprintf("(pop %d)", n))
	s.depth -= n
	s.nonBV = s.nonBV[:len(s.nonBV)-n]
	s.stack = s.stack[:len(s.stack)-n]
}

func (s *Solver) Assert(t *Term) {
	s.define(t)
	s.send("(assert " + t.ref() + ")")
	if t.NonBV {
		s.nonBV[len(s.nonBV)-1]++
	}
	s.stack[len(s.stack)-1] = append(s.stack[len(s.stack)-1], t)
}

// recover restarts a solver that does not answer and rebuilds the assertion stack.
func (s *Solver) recoverHung() {
	s.Restarts++
	old := s.stack
	s.Close()
	s.stack = nil
	if err := s.start(); err != nil {
		s.Errors = append(s.Errors, "(error \"solver restart failed\")")
		return
	}
	s.stack = [][]*Term{nil}
	for lvl, ts := range old {
		if lvl > 0 {
			s.Push()
		}
		for _, t := range ts {
			s.Assert(t)
		}
	}
}

func (s *Solver) pureBV(extra []*Term) bool {
	for _, n := range s.nonBV {
		if n > 0 {
			return false
		}
	}
	for _, e := range extra {
		if e.NonBV {
			return false
		}
	}
	return true
}

type Result int

const (
	Sat Result = iota
	Unsat
	Unknown
)

func (r Result) String() string { return [...]string{"sat", "unsat", "unknown"}[r] }

// Check runs check-sat under the current assertions plus extra (which are
// asserted inside a temporary push). On sat the model of all declared
// variables is returned.
func (s *Solver) Check(extra ...*Term) (Result, map[string]uint64) {
	start := time.Now()
	defer func() {
		d := time.Since(start)
		s.Time += d
		if d > 3*time.Second && ex != nil {
			ex.stats.Assumes[fmt.Sprintf("slow query (>3s) at %s", ex.where())]++
		}
	}()
	s.Queries++
	for _, e := range extra {
		s.define(e)
	}
	if len(extra) > 0 {
		s.send("(push 1)")
		for _, e := range extra {
			s.send("(assert " + e.ref() + ")")
		}
	}
	// stage 1: incremental solver with a short limit; stage 2 (pure bit-vector
	// queries): bit-blasting tactic; stage 3: incremental solver, full limit
	stages := []string{"(check-sat)"}
	if s.timeoutMs > 1000 {
		stages = []string{"short", "(check-sat)"}
		if s.tactic && s.pureBV(extra) {
			stages = []string{"short", fmt.Sprintf("(check-sat-using (try-for qfbv %d))", s.timeoutMs), "(check-sat)"}
		}
	}
	res := Unknown
	for _, st := range stages {
		if st == "short" {
			s.send("(set-option :timeout 400)")
			s.send("(check-sat)")
		} else {
			s.send(st)
		}
		l := ""
		for {
			l = s.readLine()
			if strings.HasPrefix(l, "(error") {
				s.Errors = append(s.Errors, l)
				if strings.Contains(l, "solver died") {
					break
				}
				continue
			}
			break
		}
		if st == "short" {
			s.send(fmt.Sprintf("(set-option :timeout %d)", s.timeoutMs))
		}
		if l == "timeout" {
			// hung inside a query: kill, restart, rebuild; the query is undecided
			s.recoverHung()
			s.QUnknown++
			return Unknown, nil
		}
		switch l {
		case "sat":
			res = Sat
		case "unsat":
			res = Unsat
		default:
			res = Unknown
		}
		if res != Unknown || strings.Contains(l, "solver died") {
			break
		}
	}
	var model map[string]uint64
	if res == Sat {
		model = s.getModel()
		s.QSat++
	} else if res == Unsat {
		s.QUnsat++
	} else {
		s.QUnknown++
	}
	if len(extra) > 0 {
		s.send("(pop 1)")
	}
	return res, model
}

func (s *Solver) getModel() map[string]uint64 {
	m := map[string]uint64{}
	var names []string
	var vars []*Term
	for _, v := range ts.vars {
		if s.emitted[v.ID] {
			vars = append(vars, v)
			if v.Sort == SF32 || v.Sort == SF64 {
				names = append(names, fmt.Sprintf("(fp.to_ieee_bv v%d)", v.K))
			} else {
				names = append(names, fmt.Sprintf("v%d", v.K))
			}
		}
	}
	if len(vars) == 0 {
		return m
	}
	s.send("(get-value (" + strings.Join(names, " ") + "))")
	// read a balanced s-expression
	var sb strings.Builder
	depth := 0
	started := false
	for {
		l := s.readLine()
		if l == "timeout" {
			s.recoverHung()
			s.Errors = append(s.Errors, "(error \"solver hung while printing a model\")")
			return m
		}
		if strings.HasPrefix(l, "(error") {
			s.Errors = append(s.Errors, l)
			return m
		}
		sb.WriteString(l)
		sb.WriteByte(' ')
		for _, c := range l {
			if c == '(' {
				depth++
				started = true
			} else if c == ')' {
				depth--
			}
		}
		if started && depth == 0 {
			break
		}
	}
	toks := tokenize(sb.String())
	// tokens: ( ( name value ) ( name value ) ... ) where name may itself be a list
	lits := []uint64{}
	for _, t := range toks {
		if strings.HasPrefix(t, "#x") {
			v, _ := strconv.ParseUint(t[2:], 16, 64)
			lits = append(lits, v)
		} else if strings.HasPrefix(t, "#b") {
			v, _ := strconv.ParseUint(t[2:], 2, 64)
			lits = append(lits, v)
		} else if t == "true" {
			lits = append(lits, 1)
		} else if t == "false" {
			lits = append(lits, 0)
		}
	}
	if len(lits) != len(vars) {
		s.Errors = append(s.Errors, fmt.Sprintf("(error model parse: %d values for %d vars: %s)", len(lits), len(vars), sb.String()))
		return m
	}
	for i, v := range vars {
		m[v.Name] = lits[i]
	}
	return m
}

func tokenize(s string) []string {
	var toks []string
	cur := ""
	for _, c := range s {
		switch c {
		case '(', ')', ' ', '\t', '\n':
			if cur != "" {
				toks = append(toks, cur)
				cur = ""
			}
		default:
			cur += string(c)
		}
	}
	if cur != "" {
		toks = append(toks, cur)
	}
	return toks
}
