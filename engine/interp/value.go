// Copyright 2013 The Go Authors. All rights reserved.
// Use of this source code is governed by a BSD-style
// license that can be found in the LICENSE file.

package interp

// Values
//
// All interpreter values are "boxed" in the empty interface, value.
// The range of possible dynamic types within value are:
//
// - bool
// - numbers (all built-in int/float/complex types are distinguished)
// - string
// - map[value]value --- maps for which  usesBuiltinMap(keyType)
//   *hashmap        --- maps for which !usesBuiltinMap(keyType)
// - chan value
// - []value --- slices
// - iface --- interfaces.
// - structure --- structs.  Fields are ordered and accessed by numeric indices.
// - array --- arrays.
// - *value --- pointers.  Careful: *value is a distinct type from *array etc.
// - *ssa.Function \
//   *ssa.Builtin   } --- functions.  A nil 'func' is always of type *ssa.Function.
//   *closure      /
// - tuple --- as returned by Return, Next, "value,ok" modes, etc.
// - iter --- iterators from 'range' over map or string.
// - bad --- a poison pill for locals that have gone out of scope.
// - rtype -- the interpreter's concrete implementation of reflect.Type
// - **deferred -- the address of a frame's defer stack for a Defer._Stack.
//
// Note that nil is not on this list.
//
// Pay close attention to whether or not the dynamic type is a pointer.
// The compiler cannot help you since value is an empty interface.

import (
	"bytes"
	"fmt"
	"go/types"
	"io"
	"reflect"
	"strings"
	"sync"
	"unsafe"

	"golang.org/x/tools/go/ssa"
	"golang.org/x/tools/go/types/typeutil"
)

type value interface{}

type tuple []value

type array []value

type iface struct {
	t types.Type // never an "untyped" type
	v value
}

type structure []value

// For map, array, *array, slice, string or channel.
type iter interface {
	// next returns a Tuple (key, value, ok).
	// key and value are unaliased, e.g. copies of the sequence element.
	next() tuple
}

type closure struct {
	Fn  *ssa.Function
	Env []value
}

type bad struct{}

type rtype struct {
	t types.Type
}

// Hash functions and equivalence relation:

// hashString computes the FNV hash of s.
func hashString(s string) int {
	var h uint32
	for i := 0; i < len(s); i++ {
		h ^= uint32(s[i])
		h *= 16777619
	}
	return int(h)
}

var (
	mu     sync.Mutex
	hasher = typeutil.MakeHasher()
)

// hashType returns a hash for t such that
// types.Identical(x, y) => hashType(x) == hashType(y).
func hashType(t types.Type) int {
	return int(hasher.Hash(t))
}

// usesBuiltinMap returns true if the built-in hash function and
// equivalence relation for type t are consistent with those of the
// interpreter's representation of type t.  Such types are: all basic
// types (bool, numbers, string), pointers and channels.
//
// usesBuiltinMap returns false for types that require a custom map
// implementation: interfaces, arrays and structs.
//
// Panic ensues if t is an invalid map key type: function, map or slice.
func usesBuiltinMap(t types.Type) bool {
	switch t := t.(type) {
	case *types.Basic, *types.Chan, *types.Pointer:
		return true
	case *types.Named, *types.Alias:
		return usesBuiltinMap(t.Underlying())
	case *types.Interface, *types.Array, *types.Struct:
		return false
	}
	panic(fmt.Sprintf("invalid map key type: %T", t))
}

func (x array) eq(t types.Type, _y interface{}) bool {
	y := _y.(array)
	tElt := t.Underlying().(*types.Array).Elem()
	for i, xi := range x {
		if !equals(tElt, xi, y[i]) {
			return false
		}
	}
	return true
}

func (x array) hash(t types.Type) int {
	h := 0
	tElt := t.Underlying().(*types.Array).Elem()
	for _, xi := range x {
		h += hash(t, tElt, xi)
	}
	return h
}

func (x structure) eq(t types.Type, _y interface{}) bool {
	y := _y.(structure)
	tStruct := t.Underlying().(*types.Struct)
	for i, n := 0, tStruct.NumFields(); i < n; i++ {
		if f := tStruct.Field(i); !f.Anonymous() {
			if !equals(f.Type(), x[i], y[i]) {
				return false
			}
		}
	}
	return true
}

func (x structure) hash(t types.Type) int {
	tStruct := t.Underlying().(*types.Struct)
	h := 0
	for i, n := 0, tStruct.NumFields(); i < n; i++ {
		if f := tStruct.Field(i); !f.Anonymous() {
			h += hash(t, f.Type(), x[i])
		}
	}
	return h
}

// nil-tolerant variant of types.Identical.
func sameType(x, y types.Type) bool {
	if x == nil {
		return y == nil
	}
	return y != nil && types.Identical(x, y)
}

func (x iface) eq(t types.Type, _y interface{}) bool {
	y := _y.(iface)
	return sameType(x.t, y.t) && (x.t == nil || equals(x.t, x.v, y.v))
}

func (x iface) hash(outer types.Type) int {
	return hashType(x.t)*8581 + hash(outer, x.t, x.v)
}

func (x rtype) hash(_ types.Type) int {
	return hashType(x.t)
}

func (x rtype) eq(_ types.Type, y interface{}) bool {
	return types.Identical(x.t, y.(rtype).t)
}

// equals returns true iff x and y are equal according to Go's
// linguistic equivalence relation for type t.
// In a well-typed program, the dynamic types of x and y are
// guaranteed equal.
func equals(t types.Type, x, y value) bool {
	if isSym(x) || isSym(y) {
		return conc(mkVal(types.Bool, equalsT(t, x, y))).(bool)
	}
	switch x := x.(type) {
	case bool:
		return x == y.(bool)
	case int:
		return x == y.(int)
	case int8:
		return x == y.(int8)
	case int16:
		return x == y.(int16)
	case int32:
		return x == y.(int32)
	case int64:
		return x == y.(int64)
	case uint:
		return x == y.(uint)
	case uint8:
		return x == y.(uint8)
	case uint16:
		return x == y.(uint16)
	case uint32:
		return x == y.(uint32)
	case uint64:
		return x == y.(uint64)
	case uintptr:
		return x == y.(uintptr)
	case float32:
		return x == y.(float32)
	case float64:
		return x == y.(float64)
	case complex64:
		return x == y.(complex64)
	case complex128:
		return x == y.(complex128)
	case string:
		return x == y.(string)
	case *value:
		return x == y.(*value)
	case chan value:
		if yc, ok := y.(chan value); ok {
			return x == yc
		}
		return false // a nil channel against a made channel
	case *ichan:
		yc, ok := y.(*ichan)
		return ok && x == yc
	case structure:
		return x.eq(t, y)
	case array:
		return x.eq(t, y)
	case iface:
		return x.eq(t, y)
	case rtype:
		return x.eq(t, y)
	}

	// Since map, func and slice don't support comparison, this
	// case is only reachable if one of x or y is literally nil
	// (handled in eqnil) or via interface{} values.
	panic(runtimeError{fmt.Sprintf("comparing uncomparable type %s", t)})
}

// Returns an integer hash of x such that equals(x, y) => hash(x) == hash(y).
// The outer type is used only for the "unhashable" panic message.
func hash(outer, t types.Type, x value) int {
	switch x := x.(type) {
	case bool:
		if x {
			return 1
		}
		return 0
	case int:
		return x
	case int8:
		return int(x)
	case int16:
		return int(x)
	case int32:
		return int(x)
	case int64:
		return int(x)
	case uint:
		return int(x)
	case uint8:
		return int(x)
	case uint16:
		return int(x)
	case uint32:
		return int(x)
	case uint64:
		return int(x)
	case uintptr:
		return int(x)
	case float32:
		return int(x)
	case float64:
		return int(x)
	case complex64:
		return int(real(x))
	case complex128:
		return int(real(x))
	case string:
		return hashString(x)
	case *value:
		return int(uintptr(unsafe.Pointer(x)))
	case chan value:
		return int(uintptr(reflect.ValueOf(x).Pointer()))
	case *ichan:
		return int(uintptr(unsafe.Pointer(x)))
	case structure:
		return x.hash(t)
	case array:
		return x.hash(t)
	case iface:
		return x.hash(t)
	case rtype:
		return x.hash(t)
	}
	panic(runtimeError{fmt.Sprintf("hash of unhashable type %v", outer)})
}

// reflect.Value struct values don't have a fixed shape, since the
// payload can be a scalar or an aggregate depending on the instance.
// So store (and load) can't simply use recursion over the shape of the
// rhs value, or the lhs, to copy the value; we need the static type
// information.  (We can't make reflect.Value a new basic data type
// because its "structness" is exposed to Go programs.)

// load returns the value of type T in *addr.
func load(T types.Type, addr *value) value {
	switch T := T.Underlying().(type) {
	case *types.Struct:
		v := (*addr).(structure)
		a := make(structure, len(v))
		for i := range a {
			a[i] = load(T.Field(i).Type(), &v[i])
		}
		return a
	case *types.Array:
		v := (*addr).(array)
		a := make(array, len(v))
		for i := range a {
			a[i] = load(T.Elem(), &v[i])
		}
		return a
	default:
		return *addr
	}
}

// store stores value v of type T into *addr.
func store(T types.Type, addr *value, v value) {
	switch T := T.Underlying().(type) {
	case *types.Struct:
		lhs := (*addr).(structure)
		rhs := v.(structure)
		for i := range lhs {
			store(T.Field(i).Type(), &lhs[i], rhs[i])
		}
	case *types.Array:
		lhs := (*addr).(array)
		rhs := v.(array)
		for i := range lhs {
			store(T.Elem(), &lhs[i], rhs[i])
		}
	default:
		*addr = v
	}
}

// Prints in the style of built-in println.
// (More or less; in gc println is actually a compiler intrinsic and
// can distinguish println(1) from println(interface{}(1)).)
func writeValue(buf *bytes.Buffer, v value) {
	switch v := v.(type) {
	case nil, bool, int, int8, int16, int32, int64, uint, uint8, uint16, uint32, uint64, uintptr, float32, float64, complex64, complex128, string:
		fmt.Fprintf(buf, "%v", v)

	case map[value]value:
		buf.WriteString("map[")
		sep := ""
		for k, e := range v {
			buf.WriteString(sep)
			sep = " "
			writeValue(buf, k)
			buf.WriteString(":")
			writeValue(buf, e)
		}
		buf.WriteString("]")

	case *hashmap:
		buf.WriteString("map[")
		sep := " "
		for _, e := range v.entries() {
			for e != nil {
				buf.WriteString(sep)
				sep = " "
				writeValue(buf, e.key)
				buf.WriteString(":")
				writeValue(buf, e.value)
				e = e.next
			}
		}
		buf.WriteString("]")

	case chan value:
		fmt.Fprintf(buf, "%v", v) // (an address)

	case *value:
		if v == nil {
			buf.WriteString("<nil>")
		} else {
			fmt.Fprintf(buf, "%p", v)
		}

	case iface:
		fmt.Fprintf(buf, "(%s, ", v.t)
		writeValue(buf, v.v)
		buf.WriteString(")")

	case structure:
		buf.WriteString("{")
		for i, e := range v {
			if i > 0 {
				buf.WriteString(" ")
			}
			writeValue(buf, e)
		}
		buf.WriteString("}")

	case array:
		buf.WriteString("[")
		for i, e := range v {
			if i > 0 {
				buf.WriteString(" ")
			}
			writeValue(buf, e)
		}
		buf.WriteString("]")

	case []value:
		buf.WriteString("[")
		for i, e := range v {
			if i > 0 {
				buf.WriteString(" ")
			}
			writeValue(buf, e)
		}
		buf.WriteString("]")

	case *ssa.Function, *ssa.Builtin, *closure:
		fmt.Fprintf(buf, "%p", v) // (an address)

	case rtype:
		buf.WriteString(v.t.String())

	case tuple:
		// Unreachable in well-formed Go programs
		buf.WriteString("(")
		for i, e := range v {
			if i > 0 {
				buf.WriteString(", ")
			}
			writeValue(buf, e)
		}
		buf.WriteString(")")

	default:
		fmt.Fprintf(buf, "<%T>", v)
	}
}

// Implements printing of Go values in the style of built-in println.
func toString(v value) string {
	var b bytes.Buffer
	writeValue(&b, v)
	return b.String()
}

// ------------------------------------------------------------------------
// Iterators

type stringIter struct {
	*strings.Reader
	i int
}

func (it *stringIter) next() tuple {
	okv := make(tuple, 3)
	ch, n, err := it.ReadRune()
	ok := err != io.EOF
	okv[0] = ok
	if ok {
		okv[1] = it.i
		okv[2] = ch
	}
	it.i += n
	return okv
}

type mapIter struct {
	iter *reflect.MapIter
	ok   bool
}

func (it *mapIter) next() tuple {
	it.ok = it.iter.Next()
	if !it.ok {
		return []value{false, nil, nil}
	}
	k, v := it.iter.Key().Interface(), it.iter.Value().Interface()
	return []value{true, k, v}
}

type hashmapIter struct {
	iter *reflect.MapIter
	ok   bool
	cur  *entry
}

func (it *hashmapIter) next() tuple {
	for {
		if it.cur != nil {
			k, v := it.cur.key, it.cur.value
			it.cur = it.cur.next
			return []value{true, k, v}
		}
		it.ok = it.iter.Next()
		if !it.ok {
			return []value{false, nil, nil}
		}
		it.cur = it.iter.Value().Interface().(*entry)
	}
}
