package interp

// Symbolic indices, slices, allocation sizes and map keys.

import (
	"fmt"
	"go/types"
	"sort"

	"golang.org/x/tools/go/ssa"
)

func mustDeref(t types.Type) types.Type {
	if p, ok := t.Underlying().(*types.Pointer); ok {
		return p.Elem()
	}
	// core type of a type parameter instance is already resolved by InstantiateGenerics
	panic(fmt.Sprintf("mustDeref: %s is not a pointer", t))
}

func noteSym(fr *frame) {
	if fr.fn != nil {
		ex.stats.Funcs[fr.fn.String()]++
	}
}

// idx64 widens an index value to a 64-bit term such that negative values
// become huge unsigned values.
func idx64(idx value) *Term {
	k, ok := kindOfValue(idx)
	if !ok {
		panic(unsupported{fmt.Sprintf("index of type %T", idx)})
	}
	t := termOf(idx)
	if kindSigned(k) {
		return Sext(t, 64)
	}
	return Zext(t, 64)
}

func boundsFault(i *Term, n int) {
	fault(Not(Cmp(OUlt, i, BV(uint64(n), 64))), fmt.Sprintf("index out of range [sym] with length %d", n))
}

// symPtr is &elems[idx] for a symbolic idx already known to be in range.
type symPtr struct {
	elems []value
	idx   *Term
}

func scalarElems(elems []value) (types.BasicKind, bool) {
	if len(elems) == 0 {
		return 0, false
	}
	k0, ok := kindOfValue(elems[0])
	if !ok {
		return 0, false
	}
	for _, e := range elems[1:] {
		k, ok := kindOfValue(e)
		if !ok || k != k0 {
			return 0, false
		}
	}
	return k0, true
}

func selectElem(elems []value, idx *Term) value {
	k, ok := scalarElems(elems)
	if !ok {
		i := ex.Split(idx)
		return elems[i]
	}
	if k != types.Bool && !kindFloat(k) && len(elems) >= 8 {
		allc := true
		for _, e := range elems {
			if _, s := e.(sym); s {
				allc = false
				break
			}
		}
		if allc {
			vals := make([]uint64, len(elems))
			for i, e := range elems {
				vals[i] = termOf(e).K
			}
			return mkVal(k, TableLookup(vals, kindWidth(k), idx))
		}
	}
	if len(elems) > 300 {
		i := ex.Split(idx)
		return elems[i]
	}
	r := termOf(elems[len(elems)-1])
	for i := len(elems) - 2; i >= 0; i-- {
		r = Ite(Cmp(OEq, idx, BV(uint64(i), 64)), termOf(elems[i]), r)
	}
	return mkVal(k, r)
}

func (p *symPtr) load() value { return selectElem(p.elems, p.idx) }

func (p *symPtr) store(v value) {
	k, ok := kindOfValue(v)
	if !ok {
		panic(unsupported{"symbolic-index store of non-scalar"})
	}
	tv := termOf(v)
	for i := range p.elems {
		p.elems[i] = mkVal(k, Ite(Cmp(OEq, p.idx, BV(uint64(i), 64)), tv, termOf(p.elems[i])))
	}
}

func indexAddr(fr *frame, instr *ssa.IndexAddr, elems []value, idx value) value {
	if _, ok := idx.(sym); !ok {
		i := asInt64(idx)
		if i < 0 || i >= int64(len(elems)) {
			panic(runtimeError{fmt.Sprintf("index out of range [%d] with length %d", i, len(elems))})
		}
		return &elems[i]
	}
	noteSym(fr)
	it := idx64(idx)
	boundsFault(it, len(elems))
	if it.IsConst() {
		return &elems[it.K]
	}
	// only loads and stores through the pointer?
	simple := true
	if refs := instr.Referrers(); refs != nil {
		for _, r := range *refs {
			switch r := r.(type) {
			case *ssa.UnOp:
				if r.Op.String() != "*" {
					simple = false
				}
			case *ssa.Store:
				if r.Addr != ssa.Value(instr) || r.Val == ssa.Value(instr) {
					simple = false
				}
			case *ssa.DebugRef:
			default:
				simple = false
			}
		}
	}
	if _, sc := scalarElems(elems); simple && sc && len(elems) <= 300 {
		return &symPtr{elems: elems, idx: it}
	}
	i := ex.Split(it)
	return &elems[i]
}

func indexLoad(elems []value, idx value) value {
	if _, ok := idx.(sym); !ok {
		i := asInt64(idx)
		if i < 0 || i >= int64(len(elems)) {
			panic(runtimeError{fmt.Sprintf("index out of range [%d] with length %d", i, len(elems))})
		}
		return elems[i]
	}
	it := idx64(idx)
	boundsFault(it, len(elems))
	if it.IsConst() {
		return elems[it.K]
	}
	return selectElem(elems, it)
}

const maxAlloc = 1 << 22 // elements; larger symbolic allocations are reported, not executed

func makeSlice(instr *ssa.MakeSlice, ln, cp value) value {
	lt, ct := idx64(ln), idx64(cp)
	// Go: panics if len < 0 || len > cap || cap too large
	if !lt.IsConst() || !ct.IsConst() {
		fault(Not(Cmp(OSle, BV(0, 64), lt)), "makeslice: len out of range")
		fault(Not(Cmp(OSle, lt, ct)), "makeslice: cap out of range")
		fault(Not(Cmp(OUle, ct, BV(1<<47, 64))), "makeslice: len out of range")
		// huge but legal allocations: resource blow-up, not a fault
		if ex.Branch(Not(Cmp(OUle, ct, BV(maxAlloc, 64)))) {
			ex.Cover("huge-allocation", BoolT(true))
			panic(pathEnd{"allocation larger than engine limit"})
		}
	}
	l := int64(ex.Split(lt))
	c := int64(ex.Split(ct))
	if l < 0 || l > c {
		panic(runtimeError{"makeslice: len out of range"})
	}
	if c > maxAlloc {
		if c > 1<<47 {
			panic(runtimeError{"makeslice: len out of range"})
		}
		ex.Cover("huge-allocation", BoolT(true))
		panic(pathEnd{"allocation larger than engine limit"})
	}
	s := make([]value, c)
	tElt := instr.Type().Underlying().(*types.Slice).Elem()
	z := zero(tElt)
	_, scalar := kindOfValue(z)
	for i := range s {
		if scalar {
			s[i] = z
		} else {
			s[i] = zero(tElt)
		}
	}
	return s[:l]
}

// concKey makes a map key concrete.
func concKey(k value) value {
	switch x := k.(type) {
	case sym:
		return conc(x)
	case symStr:
		return concStr(x)
	case iface:
		if isSym(x.v) {
			if _, ok := x.v.(symStr); ok {
				return iface{x.t, concStr(x.v)}
			}
			return iface{x.t, conc(x.v)}
		}
	case structure:
		if deepSym(x) {
			n := make(structure, len(x))
			for i, e := range x {
				n[i] = concKey(e)
			}
			return n
		}
	case array:
		if deepSym(x) {
			n := make(array, len(x))
			for i, e := range x {
				n[i] = concKey(e)
			}
			return n
		}
	}
	return k
}

// sliceSym implements x[lo:hi:max] when a bound is symbolic.
func sliceSym(x, lo, hi, max value) value {
	var Len, Cap int
	isStr := false
	switch x := x.(type) {
	case string:
		Len, Cap, isStr = len(x), len(x), true
	case symStr:
		Len, Cap, isStr = len(x), len(x), true
	case []value:
		Len, Cap = len(x), cap(x)
	case *value:
		a := (*x).(array)
		Len, Cap = len(a), len(a)
	}
	_ = isStr
	l, h, m := BV(0, 64), BV(uint64(Len), 64), BV(uint64(Cap), 64)
	if lo != nil {
		l = idx64(lo)
	}
	if hi != nil {
		h = idx64(hi)
	}
	if max != nil {
		m = idx64(max)
		fault(Not(Cmp(OUle, m, BV(uint64(Cap), 64))), fmt.Sprintf("slice bounds out of range [::sym] with capacity %d", Cap))
		fault(Not(Cmp(OUle, h, m)), "slice bounds out of range [:sym:sym]")
	} else {
		fault(Not(Cmp(OUle, h, BV(uint64(Cap), 64))), fmt.Sprintf("slice bounds out of range [:sym] with capacity %d", Cap))
	}
	fault(Not(Cmp(OUle, l, h)), "slice bounds out of range [sym:sym]")
	// constant-width window at a symbolic position of a concrete string: table lookups
	if xs, ok := x.(string); ok && !l.IsConst() {
		if d := Bin(OSub, h, l); d.IsConst() && d.K <= 16 && len(xs) >= 8 && len(xs) <= 1024 {
			vals := make([]uint64, len(xs))
			for i := 0; i < len(xs); i++ {
				vals[i] = uint64(xs[i])
			}
			out := make([]value, d.K)
			for i := uint64(0); i < d.K; i++ {
				out[i] = mkVal(types.Uint8, TableLookup(vals, 8, Bin(OAdd, l, BV(i, 64))))
			}
			return mkStr(out)
		}
	}
	lc, hc, mc := int64(ex.Split(l)), int64(ex.Split(h)), int64(ex.Split(m))
	switch x := x.(type) {
	case string:
		return x[lc:hc]
	case symStr:
		return mkStr([]value(x[lc:hc]))
	case []value:
		return x[lc:hc:mc]
	case *value:
		a := (*x).(array)
		return []value(a)[lc:hc:mc]
	}
	panic(fmt.Sprintf("slice: unexpected X type: %T", x))
}

// ---- deterministic map iteration -------------------------------------------------

type sortedMapIter struct {
	keys []value
	vals []value
	i    int
}

func (it *sortedMapIter) next() tuple {
	if it.i >= len(it.keys) {
		return []value{false, nil, nil}
	}
	k, v := it.keys[it.i], it.vals[it.i]
	it.i++
	return []value{true, k, v}
}

func keyLess(a, b value) bool {
	switch x := a.(type) {
	case string:
		if y, ok := b.(string); ok {
			return x < y
		}
	case bool:
		if y, ok := b.(bool); ok {
			return !x && y
		}
	case float64:
		if y, ok := b.(float64); ok {
			return x < y
		}
	case float32:
		if y, ok := b.(float32); ok {
			return x < y
		}
	}
	ka, oka := kindOfValue(a)
	kb, okb := kindOfValue(b)
	if oka && okb && ka == kb && !kindFloat(ka) && ka != types.Bool {
		if kindSigned(ka) {
			return sext64(termOf(a).K, kindWidth(ka)) < sext64(termOf(b).K, kindWidth(kb))
		}
		return termOf(a).K < termOf(b).K
	}
	return toString(a) < toString(b)
}

func newSortedMapIter(keys, vals []value) iter {
	idx := make([]int, len(keys))
	for i := range idx {
		idx[i] = i
	}
	sort.SliceStable(idx, func(i, j int) bool { return keyLess(keys[idx[i]], keys[idx[j]]) })
	it := &sortedMapIter{}
	for _, i := range idx {
		it.keys = append(it.keys, keys[i])
		it.vals = append(it.vals, vals[i])
	}
	return it
}

// symStrIter iterates a string with symbolic bytes; all bytes are assumed < 0x80
// on the path (forked otherwise and reported unsupported).
type symStrIter struct {
	s symStr
	i int
}

func (it *symStrIter) next() tuple {
	if it.i >= len(it.s) {
		return tuple{false, nil, nil}
	}
	b := it.s[it.i]
	if sb, ok := b.(sym); ok {
		if ex.Branch(Not(Cmp(OUlt, sb.t, BV(0x80, 8)))) {
			panic(unsupported{"range over symbolic non-ASCII string"})
		}
	}
	r := conv(types.Typ[types.Int32], types.Typ[types.Uint8], b)
	t := tuple{true, it.i, r}
	it.i++
	return t
}


// ---- unsafe pointer casts between same-size numeric types ----------------------

type unsafePtr struct {
	p    *value
	elem types.Type
}

type castPtr struct {
	p        *value
	from, to types.BasicKind
}

func bitcast(v value, from, to types.BasicKind) value {
	t := termOf(v)
	if kindFloat(from) {
		t = FPToBits(t)
	}
	if kindFloat(to) {
		return mkVal(to, FPFromBits(t, kindSort(to)))
	}
	return mkVal(to, t)
}

func (c *castPtr) load() value   { return bitcast(*c.p, c.from, c.to) }
func (c *castPtr) store(v value) { *c.p = bitcast(v, c.to, c.from) }


// symMapKey makes a symbolic scalar key of a map lookup concrete: for maps with
// few keys it forks once per present key plus once for "absent" (instead of
// once per feasible value of the key).
func symMapKey(m value, k value) value {
	sk, ok := k.(sym)
	if !ok {
		return concKey(k)
	}
	mm, ok := m.(map[value]value)
	if !ok || len(mm) > 64 || kindFloat(sk.k) || sk.k == types.Bool {
		return concKey(k)
	}
	var keys []value
	for key := range mm {
		keys = append(keys, key)
	}
	sort.SliceStable(keys, func(i, j int) bool { return keyLess(keys[i], keys[j]) })
	for _, key := range keys {
		kk, ok := kindOfValue(key)
		if !ok || kk != sk.k {
			return concKey(k)
		}
		if ex.Branch(Cmp(OEq, sk.t, termOf(key))) {
			return key
		}
	}
	// absent on this path: the lookup result is the same for every absent key, so any
	// concrete key that is not in the map stands in (the key itself stays symbolic)
	for c := uint64(0); ; c++ {
		cand := constOfKind(sk.k, c)
		if _, present := mm[cand]; !present {
			return cand
		}
	}
}
