// Copyright 2013 The Go Authors. All rights reserved.
// Use of this source code is governed by a BSD-style
// license that can be found in the LICENSE file.

package interp

// Emulated "reflect" package.
//
// We completely replace the built-in "reflect" package.
// The only thing clients can depend upon are that reflect.Type is an
// interface and reflect.Value is an (opaque) struct.

import (
	"fmt"
	"go/token"
	"go/types"
	"reflect"
	"unsafe"

	"golang.org/x/tools/go/ssa"
)

type opaqueType struct {
	types.Type
	name string
}

func (t *opaqueType) String() string { return t.name }

// A bogus "reflect" type-checker package.  Shared across interpreters.
var reflectTypesPackage = types.NewPackage("reflect", "reflect")

// rtype is the concrete type the interpreter uses to implement the
// reflect.Type interface.
//
// type rtype <opaque>
var rtypeType = makeNamedType("rtype", &opaqueType{nil, "rtype"})

// error is an (interpreted) named type whose underlying type is string.
// The interpreter uses it for all implementations of the built-in error
// interface that it creates.
// We put it in the "reflect" package for expedience.
//
// type error string
var errorType = makeNamedType("error", &opaqueType{nil, "error"})

func makeNamedType(name string, underlying types.Type) *types.Named {
	obj := types.NewTypeName(token.NoPos, reflectTypesPackage, name, nil)
	return types.NewNamed(obj, underlying, nil)
}

func makeReflectValue(t types.Type, v value) value {
	return structure{rtype{t}, v}
}

// Given a reflect.Value, returns its rtype.
func rV2T(v value) rtype {
	return v.(structure)[0].(rtype)
}

// Given a reflect.Value, returns the underlying interpreter value.
func rV2V(v value) value {
	x := v.(structure)[1]
	if a, ok := x.(reflAddr); ok {
		return *a.p
	}
	return x
}

// reflAddr is the payload of a reflect.Value obtained by Elem() of a pointer:
// it keeps the address so that (reflect.Value).Set can store through it.
type reflAddr struct{ p *value }

// makeReflectType boxes up an rtype in a reflect.Type interface.
func makeReflectType(rt rtype) value {
	return iface{rtypeType, rt}
}

func ext۰reflect۰rtype۰Bits(fr *frame, args []value) value {
	// Signature: func (t reflect.rtype) int
	rt := args[0].(rtype).t
	basic, ok := rt.Underlying().(*types.Basic)
	if !ok {
		panic(fmt.Sprintf("reflect.Type.Bits(%T): non-basic type", rt))
	}
	return int(fr.i.sizes.Sizeof(basic)) * 8
}

func ext۰reflect۰rtype۰Elem(fr *frame, args []value) value {
	// Signature: func (t reflect.rtype) reflect.Type
	return makeReflectType(rtype{args[0].(rtype).t.Underlying().(interface {
		Elem() types.Type
	}).Elem()})
}

func ext۰reflect۰rtype۰Field(fr *frame, args []value) value {
	// Signature: func (t reflect.rtype, i int) reflect.StructField
	st := args[0].(rtype).t.Underlying().(*types.Struct)
	i := args[1].(int)
	f := st.Field(i)
	return structure{
		f.Name(),
		f.Pkg().Path(),
		makeReflectType(rtype{f.Type()}),
		st.Tag(i),
		0,         // TODO(adonovan): offset
		[]value{}, // TODO(adonovan): indices
		f.Anonymous(),
	}
}

func ext۰reflect۰rtype۰In(fr *frame, args []value) value {
	// Signature: func (t reflect.rtype, i int) int
	i := args[1].(int)
	return makeReflectType(rtype{args[0].(rtype).t.(*types.Signature).Params().At(i).Type()})
}

func ext۰reflect۰rtype۰Kind(fr *frame, args []value) value {
	// Signature: func (t reflect.rtype) uint
	return uint(reflectKind(args[0].(rtype).t))
}

func ext۰reflect۰rtype۰NumField(fr *frame, args []value) value {
	// Signature: func (t reflect.rtype) int
	return args[0].(rtype).t.Underlying().(*types.Struct).NumFields()
}

func ext۰reflect۰rtype۰NumIn(fr *frame, args []value) value {
	// Signature: func (t reflect.rtype) int
	return args[0].(rtype).t.Underlying().(*types.Signature).Params().Len()
}

func ext۰reflect۰rtype۰NumMethod(fr *frame, args []value) value {
	// Signature: func (t reflect.rtype) int
	return fr.i.prog.MethodSets.MethodSet(args[0].(rtype).t).Len()
}

func ext۰reflect۰rtype۰NumOut(fr *frame, args []value) value {
	// Signature: func (t reflect.rtype) int
	return args[0].(rtype).t.Underlying().(*types.Signature).Results().Len()
}

func ext۰reflect۰rtype۰Out(fr *frame, args []value) value {
	// Signature: func (t reflect.rtype, i int) int
	i := args[1].(int)
	return makeReflectType(rtype{args[0].(rtype).t.Underlying().(*types.Signature).Results().At(i).Type()})
}

func ext۰reflect۰rtype۰Size(fr *frame, args []value) value {
	// Signature: func (t reflect.rtype) uintptr
	return uintptr(fr.i.sizes.Sizeof(args[0].(rtype).t))
}

func ext۰reflect۰rtype۰String(fr *frame, args []value) value {
	// Signature: func (t reflect.rtype) string
	return args[0].(rtype).t.String()
}

func ext۰reflect۰New(fr *frame, args []value) value {
	// Signature: func (t reflect.Type) reflect.Value
	t := args[0].(iface).v.(rtype).t
	alloc := zero(t)
	return makeReflectValue(types.NewPointer(t), &alloc)
}

func ext۰reflect۰SliceOf(fr *frame, args []value) value {
	// Signature: func (t reflect.rtype) Type
	return makeReflectType(rtype{types.NewSlice(args[0].(iface).v.(rtype).t)})
}

func ext۰reflect۰TypeOf(fr *frame, args []value) value {
	// Signature: func (t reflect.rtype) Type
	return makeReflectType(rtype{args[0].(iface).t})
}

func ext۰reflect۰ValueOf(fr *frame, args []value) value {
	// Signature: func (interface{}) reflect.Value
	itf := args[0].(iface)
	return makeReflectValue(itf.t, itf.v)
}

func ext۰reflect۰Zero(fr *frame, args []value) value {
	// Signature: func (t reflect.Type) reflect.Value
	t := args[0].(iface).v.(rtype).t
	return makeReflectValue(t, zero(t))
}

func reflectKind(t types.Type) reflect.Kind {
	switch t := t.(type) {
	case *types.Named, *types.Alias:
		return reflectKind(t.Underlying())
	case *types.Basic:
		switch t.Kind() {
		case types.Bool:
			return reflect.Bool
		case types.Int:
			return reflect.Int
		case types.Int8:
			return reflect.Int8
		case types.Int16:
			return reflect.Int16
		case types.Int32:
			return reflect.Int32
		case types.Int64:
			return reflect.Int64
		case types.Uint:
			return reflect.Uint
		case types.Uint8:
			return reflect.Uint8
		case types.Uint16:
			return reflect.Uint16
		case types.Uint32:
			return reflect.Uint32
		case types.Uint64:
			return reflect.Uint64
		case types.Uintptr:
			return reflect.Uintptr
		case types.Float32:
			return reflect.Float32
		case types.Float64:
			return reflect.Float64
		case types.Complex64:
			return reflect.Complex64
		case types.Complex128:
			return reflect.Complex128
		case types.String:
			return reflect.String
		case types.UnsafePointer:
			return reflect.UnsafePointer
		}
	case *types.Array:
		return reflect.Array
	case *types.Chan:
		return reflect.Chan
	case *types.Signature:
		return reflect.Func
	case *types.Interface:
		return reflect.Interface
	case *types.Map:
		return reflect.Map
	case *types.Pointer:
		return reflect.Ptr
	case *types.Slice:
		return reflect.Slice
	case *types.Struct:
		return reflect.Struct
	}
	panic(fmt.Sprint("unexpected type: ", t))
}

func ext۰reflect۰Value۰Kind(fr *frame, args []value) value {
	// Signature: func (reflect.Value) uint
	return uint(reflectKind(rV2T(args[0]).t))
}

func ext۰reflect۰Value۰String(fr *frame, args []value) value {
	// Signature: func (reflect.Value) string
	return toString(rV2V(args[0]))
}

func ext۰reflect۰Value۰Type(fr *frame, args []value) value {
	// Signature: func (reflect.Value) reflect.Type
	return makeReflectType(rV2T(args[0]))
}

func ext۰reflect۰Value۰Uint(fr *frame, args []value) value {
	// Signature: func (reflect.Value) uint64
	switch v := rV2V(args[0]).(type) {
	case uint:
		return uint64(v)
	case uint8:
		return uint64(v)
	case uint16:
		return uint64(v)
	case uint32:
		return uint64(v)
	case uint64:
		return uint64(v)
	case uintptr:
		return uint64(v)
	}
	panic("reflect.Value.Uint")
}

func ext۰reflect۰Value۰Len(fr *frame, args []value) value {
	// Signature: func (reflect.Value) int
	switch v := rV2V(args[0]).(type) {
	case string:
		return len(v)
	case array:
		return len(v)
	case chan value:
		return cap(v)
	case []value:
		return len(v)
	case *hashmap:
		return v.len()
	case map[value]value:
		return len(v)
	default:
		panic(fmt.Sprintf("reflect.(Value).Len(%v)", v))
	}
}

func ext۰reflect۰Value۰MapIndex(fr *frame, args []value) value {
	// Signature: func (reflect.Value) Value
	tValue := rV2T(args[0]).t.Underlying().(*types.Map).Key()
	k := rV2V(args[1])
	switch m := rV2V(args[0]).(type) {
	case map[value]value:
		if v, ok := m[k]; ok {
			return makeReflectValue(tValue, v)
		}

	case *hashmap:
		if v := m.lookup(k.(hashable)); v != nil {
			return makeReflectValue(tValue, v)
		}

	default:
		panic(fmt.Sprintf("(reflect.Value).MapIndex(%T, %T)", m, k))
	}
	return makeReflectValue(nil, nil)
}

func ext۰reflect۰Value۰MapKeys(fr *frame, args []value) value {
	// Signature: func (reflect.Value) []Value
	var keys []value
	tKey := rV2T(args[0]).t.Underlying().(*types.Map).Key()
	switch v := rV2V(args[0]).(type) {
	case map[value]value:
		for k := range v {
			keys = append(keys, makeReflectValue(tKey, k))
		}

	case *hashmap:
		for _, e := range v.entries() {
			for ; e != nil; e = e.next {
				keys = append(keys, makeReflectValue(tKey, e.key))
			}
		}

	default:
		panic(fmt.Sprintf("(reflect.Value).MapKeys(%T)", v))
	}
	return keys
}

func ext۰reflect۰Value۰NumField(fr *frame, args []value) value {
	// Signature: func (reflect.Value) int
	return len(rV2V(args[0]).(structure))
}

func ext۰reflect۰Value۰NumMethod(fr *frame, args []value) value {
	// Signature: func (reflect.Value) int
	return fr.i.prog.MethodSets.MethodSet(rV2T(args[0]).t).Len()
}

func ext۰reflect۰Value۰Pointer(fr *frame, args []value) value {
	// Signature: func (v reflect.Value) uintptr
	switch v := rV2V(args[0]).(type) {
	case *value:
		return uintptr(unsafe.Pointer(v))
	case chan value:
		return reflect.ValueOf(v).Pointer()
	case []value:
		return reflect.ValueOf(v).Pointer()
	case *hashmap:
		return reflect.ValueOf(v.entries()).Pointer()
	case map[value]value:
		return reflect.ValueOf(v).Pointer()
	case *ssa.Function:
		return uintptr(unsafe.Pointer(v))
	case *closure:
		return uintptr(unsafe.Pointer(v))
	default:
		panic(fmt.Sprintf("reflect.(Value).Pointer(%T)", v))
	}
}

func ext۰reflect۰Value۰Index(fr *frame, args []value) value {
	// Signature: func (v reflect.Value, i int) Value
	i := args[1].(int)
	t := rV2T(args[0]).t.Underlying()
	switch v := rV2V(args[0]).(type) {
	case array:
		return makeReflectValue(t.(*types.Array).Elem(), v[i])
	case []value:
		return makeReflectValue(t.(*types.Slice).Elem(), v[i])
	default:
		panic(fmt.Sprintf("reflect.(Value).Index(%T)", v))
	}
}

func ext۰reflect۰Value۰Bool(fr *frame, args []value) value {
	// Signature: func (reflect.Value) bool
	return rV2V(args[0]).(bool)
}

func ext۰reflect۰Value۰CanAddr(fr *frame, args []value) value {
	// Signature: func (v reflect.Value) bool
	// Always false for our representation.
	return false
}

func ext۰reflect۰Value۰CanInterface(fr *frame, args []value) value {
	// Signature: func (v reflect.Value) bool
	// Always true for our representation.
	return true
}

func ext۰reflect۰Value۰Elem(fr *frame, args []value) value {
	// Signature: func (v reflect.Value) reflect.Value
	switch x := rV2V(args[0]).(type) {
	case iface:
		return makeReflectValue(x.t, x.v)
	case *value:
		var v value
		if x != nil {
			v = *x
		}
		if x != nil {
			return makeReflectValue(rV2T(args[0]).t.Underlying().(*types.Pointer).Elem(), reflAddr{x})
		}
		return makeReflectValue(rV2T(args[0]).t.Underlying().(*types.Pointer).Elem(), v)
	default:
		panic(fmt.Sprintf("reflect.(Value).Elem(%T)", x))
	}
}

func ext۰reflect۰Value۰Field(fr *frame, args []value) value {
	// Signature: func (v reflect.Value, i int) reflect.Value
	v := args[0]
	i := args[1].(int)
	return makeReflectValue(rV2T(v).t.Underlying().(*types.Struct).Field(i).Type(), rV2V(v).(structure)[i])
}

func ext۰reflect۰Value۰Float(fr *frame, args []value) value {
	// Signature: func (reflect.Value) float64
	switch v := rV2V(args[0]).(type) {
	case float32:
		return float64(v)
	case float64:
		return float64(v)
	}
	panic("reflect.Value.Float")
}

func ext۰reflect۰Value۰Interface(fr *frame, args []value) value {
	// Signature: func (v reflect.Value) interface{}
	return ext۰reflect۰valueInterface(fr, args)
}

func ext۰reflect۰Value۰Int(fr *frame, args []value) value {
	// Signature: func (reflect.Value) int64
	switch x := rV2V(args[0]).(type) {
	case int:
		return int64(x)
	case int8:
		return int64(x)
	case int16:
		return int64(x)
	case int32:
		return int64(x)
	case int64:
		return x
	default:
		panic(fmt.Sprintf("reflect.(Value).Int(%T)", x))
	}
}

func ext۰reflect۰Value۰IsNil(fr *frame, args []value) value {
	// Signature: func (reflect.Value) bool
	switch x := rV2V(args[0]).(type) {
	case *value:
		return x == nil
	case chan value:
		return x == nil
	case map[value]value:
		return x == nil
	case *hashmap:
		return x == nil
	case iface:
		return x.t == nil
	case []value:
		return x == nil
	case *ssa.Function:
		return x == nil
	case *ssa.Builtin:
		return x == nil
	case *closure:
		return x == nil
	default:
		panic(fmt.Sprintf("reflect.(Value).IsNil(%T)", x))
	}
}

func ext۰reflect۰Value۰IsValid(fr *frame, args []value) value {
	// Signature: func (reflect.Value) bool
	return rV2V(args[0]) != nil
}

func ext۰reflect۰Value۰Set(fr *frame, args []value) value {
	// Signature: func (v reflect.Value, x reflect.Value)
	// Only values obtained by Elem() of a pointer are addressable here.
	if a, ok := args[0].(structure)[1].(reflAddr); ok {
		T := rV2T(args[0]).t
		src := rV2V(args[1])
		store(T, a.p, load(T, &src))
		return nil
	}
	panic(unsupported{"(reflect.Value).Set on a value that is not the Elem of a pointer"})
}

func ext۰reflect۰PointerTo(fr *frame, args []value) value {
	// Signature: func (t reflect.Type) reflect.Type
	return makeReflectType(rtype{types.NewPointer(args[0].(iface).v.(rtype).t)})
}

func ext۰reflect۰rtype۰AssignableTo(fr *frame, args []value) value {
	// Signature: func (t reflect.rtype, u reflect.Type) bool
	return types.AssignableTo(args[0].(rtype).t, args[1].(iface).v.(rtype).t)
}

func ext۰reflect۰valueInterface(fr *frame, args []value) value {
	// Signature: func (v reflect.Value, safe bool) interface{}
	v := args[0].(structure)
	return iface{rV2T(v).t, rV2V(v)}
}

func ext۰reflect۰error۰Error(fr *frame, args []value) value {
	return args[0]
}

// newMethod creates a new method of the specified name, package and receiver type.
func newMethod(pkg *ssa.Package, recvType types.Type, name string) *ssa.Function {
	// TODO(adonovan): fix: hack: currently the only part of Signature
	// that is needed is the "pointerness" of Recv.Type, and for
	// now, we'll set it to always be false since we're only
	// concerned with rtype.  Encapsulate this better.
	sig := types.NewSignature(types.NewVar(token.NoPos, nil, "recv", recvType), nil, nil, false)
	fn := pkg.Prog.NewFunction(name, sig, "fake reflect method")
	fn.Pkg = pkg
	return fn
}

func initReflect(i *interpreter) {
	i.reflectPackage = &ssa.Package{
		Prog:    i.prog,
		Pkg:     reflectTypesPackage,
		Members: make(map[string]ssa.Member),
	}

	// Clobber the type-checker's notion of reflect.Value's
	// underlying type so that it more closely matches the fake one
	// (at least in the number of fields---we lie about the type of
	// the rtype field).
	//
	// We must ensure that calls to (ssa.Value).Type() return the
	// fake type so that correct "shape" is used when allocating
	// variables, making zero values, loading, and storing.
	//
	// TODO(adonovan): obviously this is a hack.  We need a cleaner
	// way to fake the reflect package (almost---DeepEqual is fine).
	// One approach would be not to even load its source code, but
	// provide fake source files.  This would guarantee that no bad
	// information leaks into other packages.
	if r := i.prog.ImportedPackage("reflect"); r != nil {
		rV := r.Pkg.Scope().Lookup("Value").Type().(*types.Named)

		// delete bodies of the old methods
		mset := i.prog.MethodSets.MethodSet(rV)
		for j := 0; j < mset.Len(); j++ {
			i.prog.MethodValue(mset.At(j)).Blocks = nil
		}

		tEface := types.NewInterface(nil, nil).Complete()
		rV.SetUnderlying(types.NewStruct([]*types.Var{
			types.NewField(token.NoPos, r.Pkg, "t", tEface, false), // a lie
			types.NewField(token.NoPos, r.Pkg, "v", tEface, false),
		}, nil))
	}

	i.rtypeMethods = methodSet{
		"AssignableTo": newMethod(i.reflectPackage, rtypeType, "AssignableTo"),
		"Bits":      newMethod(i.reflectPackage, rtypeType, "Bits"),
		"Elem":      newMethod(i.reflectPackage, rtypeType, "Elem"),
		"Field":     newMethod(i.reflectPackage, rtypeType, "Field"),
		"In":        newMethod(i.reflectPackage, rtypeType, "In"),
		"Kind":      newMethod(i.reflectPackage, rtypeType, "Kind"),
		"NumField":  newMethod(i.reflectPackage, rtypeType, "NumField"),
		"NumIn":     newMethod(i.reflectPackage, rtypeType, "NumIn"),
		"NumMethod": newMethod(i.reflectPackage, rtypeType, "NumMethod"),
		"NumOut":    newMethod(i.reflectPackage, rtypeType, "NumOut"),
		"Out":       newMethod(i.reflectPackage, rtypeType, "Out"),
		"Size":      newMethod(i.reflectPackage, rtypeType, "Size"),
		"String":    newMethod(i.reflectPackage, rtypeType, "String"),
	}
	i.errorMethods = methodSet{
		"Error": newMethod(i.reflectPackage, errorType, "Error"),
	}
}
