package interp

// Engine-side implementation of the harness runtime (package vrt).

import (
	"fmt"
	"go/types"
	"strings"
)

const vrtPath = "github.com/wader/fq/internal/zzvrt"

func init() {
	reg := func(name string, f externalFn) { externals[vrtPath+"."+name] = f }
	scalar := func(k types.BasicKind) externalFn {
		return func(fr *frame, args []value) value {
			name := args[0].(string)
			if kindFloat(k) {
				w := kindWidth(k)
				b := ex.input(name, SBV, w)
				return mkVal(k, FPFromBits(b, kindSort(k)))
			}
			if k == types.Bool {
				b := ex.input(name, SBV, 8)
				return mkVal(types.Bool, Not(Cmp(OEq, b, BV(0, 8))))
			}
			return mkVal(k, ex.input(name, SBV, kindWidth(k)))
		}
	}
	reg("Symbolic", func(fr *frame, args []value) value { return ex.concrete == nil })
	reg("Reset", func(fr *frame, args []value) value { return nil })
	reg("Bool", scalar(types.Bool))
	reg("Uint8", scalar(types.Uint8))
	reg("Uint16", scalar(types.Uint16))
	reg("Uint32", scalar(types.Uint32))
	reg("Uint64", scalar(types.Uint64))
	reg("Uint", scalar(types.Uint))
	reg("Int8", scalar(types.Int8))
	reg("Int16", scalar(types.Int16))
	reg("Int32", scalar(types.Int32))
	reg("Int64", scalar(types.Int64))
	reg("Int", scalar(types.Int))
	reg("Float64", scalar(types.Float64))
	reg("Float32", scalar(types.Float32))
	reg("Bytes", func(fr *frame, args []value) value {
		name := args[0].(string)
		n := int(asInt64(args[1]))
		out := make([]value, n)
		for i := range out {
			out[i] = mkVal(types.Uint8, ex.input(fmt.Sprintf("%s[%d]", name, i), SBV, 8))
		}
		return out
	})
	reg("IntRange", func(fr *frame, args []value) value {
		name := args[0].(string)
		lo, hi := asInt64(args[1]), asInt64(args[2])
		v := ex.input(name, SBV, 64)
		if ex.concrete != nil {
			c := sext64(v.K, 64)
			if c < lo || c > hi {
				panic(pathEnd{"assume false (concrete)"})
			}
			return int(c)
		}
		if lo > hi {
			panic(pathEnd{"empty range"})
		}
		return int(ex.SplitFresh(v, lo, hi))
	})
	reg("Choice", func(fr *frame, args []value) value {
		name := args[0].(string)
		n := asInt64(args[1])
		v := ex.input(name, SBV, 64)
		if ex.concrete != nil {
			c := sext64(v.K, 64)
			if c < 0 || c >= n {
				panic(pathEnd{"assume false (concrete)"})
			}
			return int(c)
		}
		if n <= 0 {
			panic(pathEnd{"empty range"})
		}
		return int(ex.SplitFresh(v, 0, n-1))
	})
	reg("Assume", func(fr *frame, args []value) value {
		ex.stats.Assumes[fr.callerPos()]++
		ex.Assume(termOf(args[0]))
		return nil
	})
	reg("Assert", func(fr *frame, args []value) value {
		ex.Assert(termOf(args[0]), args[1].(string), "", nil)
		return nil
	})
	reg("AssertKnown", func(fr *frame, args []value) value {
		ex.Assert(termOf(args[0]), args[1].(string), args[2].(string), termOf(args[3]))
		return nil
	})
	reg("Cover", func(fr *frame, args []value) value {
		ex.Cover(args[0].(string), termOf(args[1]))
		return nil
	})
	reg("Split", func(fr *frame, args []value) value { return conc(args[0]) })
	reg("SplitU", func(fr *frame, args []value) value { return conc(args[0]) })
	reg("SplitInt", func(fr *frame, args []value) value { return conc(args[0]) })
	reg("IteU64", func(fr *frame, args []value) value {
		return mkVal(types.Uint64, Ite(termOf(args[0]), termOf(args[1]), termOf(args[2])))
	})
	reg("IteI64", func(fr *frame, args []value) value {
		return mkVal(types.Int64, Ite(termOf(args[0]), termOf(args[1]), termOf(args[2])))
	})
	reg("Threads", func(fr *frame, args []value) value {
		var watch []string
		for _, w := range args[1].([]value) {
			watch = append(watch, w.(string))
		}
		ex.threads = startSched(int(asInt64(args[0])), watch)
		return nil
	})
	reg("Quiesce", func(fr *frame, args []value) value {
		s := ex.threads
		if s == nil {
			return nil
		}
		// run the other threads until none of them can make progress
		me := s.cur
		s.block("quiesce", func() bool {
			for _, t := range s.threads {
				if t == me || t.done {
					continue
				}
				if t.blocked == nil || t.blocked() {
					return false
				}
			}
			return true
		})
		return nil
	})
	reg("Stop", func(fr *frame, args []value) value {
		ex.Cover("stop:"+args[0].(string), BoolT(true))
		panic(pathEnd{"stop: " + args[0].(string)})
	})
	reg("Observe", func(fr *frame, args []value) value {
		var sb strings.Builder
		sb.WriteString(args[0].(string))
		for _, v := range args[1].([]value) {
			sb.WriteString(" ")
			sb.WriteString(observeString(v))
		}
		if len(ex.stats.Observes) < 10000 {
			ex.stats.Observes = append(ex.stats.Observes, sb.String())
		}
		return nil
	})
	reg("F16ToF32Ref", func(fr *frame, args []value) value {
		return mkVal(types.Float32, FPFrom16(termOf(args[0])))
	})
	reg("UF64", func(fr *frame, args []value) value {
		name := args[0].(string)
		var ts []*Term
		for _, a := range args[1].([]value) {
			ts = append(ts, termOf(a))
		}
		if ex.concrete != nil {
			h := uint64(1469598103934665603)
			for _, c := range []byte(name) {
				h = (h ^ uint64(c)) * 1099511628211
			}
			for _, a := range ts {
				h = (h ^ a.K) * 1099511628211
			}
			return h
		}
		return mkVal(types.Uint64, UF(name, SBV, 64, ts...))
	})
}

func (fr *frame) callerPos() string {
	if fr.caller != nil && fr.caller.fn != nil {
		return fr.caller.fn.Name()
	}
	return "?"
}

// observeString prints like fmt's %v for the value kinds harnesses observe.
func observeString(v value) string {
	switch x := v.(type) {
	case iface:
		if x.t == nil {
			return "<nil>"
		}
		return observeString(x.v)
	case sym:
		c := conc(x)
		return fmt.Sprintf("%v", c)
	case symStr:
		return concStr(x).(string)
	case []value:
		parts := make([]string, len(x))
		for i, e := range x {
			parts[i] = observeString(e)
		}
		return "[" + strings.Join(parts, " ") + "]"
	case string, bool, int, int8, int16, int32, int64, uint, uint8, uint16, uint32, uint64, uintptr, float32, float64:
		return fmt.Sprintf("%v", x)
	case *value:
		if x == nil {
			return "<nil>"
		}
		return "<ptr>"
	}
	return fmt.Sprintf("<%T>", v)
}
