package interp

// Exact feasibility of branches over a single 8-bit input variable.
//
// A path-condition conjunct is "simple over v" when it is a comparison of the
// 8-bit variable v (possibly zero extended) with a constant, or the negation of
// one. As long as v occurs in no other kind of conjunct, the set of feasible
// values of v is exactly the intersection of its simple conjuncts, so a branch
// whose condition is simple over v is decided without the solver (type
// dispatch on an input byte is the dominant branch shape in decoders).

type byteSet [4]uint64

func (s *byteSet) has(x uint64) bool { return s[x>>6]>>(x&63)&1 == 1 }
func (s *byteSet) empty() bool      { return s[0]|s[1]|s[2]|s[3] == 0 }
func (s *byteSet) first() uint64 {
	for x := uint64(0); x < 256; x++ {
		if s.has(x) {
			return x
		}
	}
	return 0
}

func fullByteSet() *byteSet { return &byteSet{^uint64(0), ^uint64(0), ^uint64(0), ^uint64(0)} }

// simpleOver returns (v, pred) if the only input variable of t is one 8-bit
// variable; pred evaluates t for a value of it.
func simpleOver(t *Term) (*Term, func(uint64) bool) {
	if t.NonBV {
		return nil, nil
	}
	vs := termVars(t)
	if len(vs) != 1 || vs[0].W != 8 || vs[0].Sort != SBV {
		return nil, nil
	}
	v := vs[0]
	// truth table, computed once per term
	tt, ok := truthTables[t]
	if !ok {
		tt = &byteSet{}
		for x := uint64(0); x < 256; x++ {
			m := NewModel(map[string]uint64{v.Name: x})
			r, ok := m.TryEval(t)
			if !ok {
				truthTables[t] = nil
				return nil, nil
			}
			if r != 0 {
				tt[x>>6] |= 1 << (x & 63)
			}
		}
		if len(truthTables) > 500_000 {
			truthTables = map[*Term]*byteSet{}
		}
		truthTables[t] = tt
	}
	if tt == nil {
		return nil, nil
	}
	return v, tt.has
}

var truthTables = map[*Term]*byteSet{}

var termVarsMemo = map[*Term][]*Term{}

// termVars returns the input variables occurring in t (memoised, iterative).
func termVars(t *Term) []*Term {
	if vs, ok := termVarsMemo[t]; ok {
		return vs
	}
	seen := map[*Term]bool{}
	var out []*Term
	stack := []*Term{t}
	for len(stack) > 0 {
		x := stack[len(stack)-1]
		stack = stack[:len(stack)-1]
		if x == nil || seen[x] || x.Op == OConst {
			continue
		}
		seen[x] = true
		if x.Op == OVar {
			out = append(out, x)
			continue
		}
		if vs, ok := termVarsMemo[x]; ok && x != t {
			for _, v := range vs {
				if !seen[v] {
					seen[v] = true
					out = append(out, v)
				}
			}
			continue
		}
		stack = append(stack, x.A, x.B, x.C)
	}
	if len(termVarsMemo) > 2_000_000 {
		termVarsMemo = map[*Term][]*Term{}
	}
	termVarsMemo[t] = out
	return out
}

// noteConjunct updates the byte domains for a conjunct added to the path condition.
func (e *Explorer) noteConjunct(t *Term) {
	if v, pred := simpleOver(t); v != nil {
		s := e.byteSets[v]
		if s == nil {
			s = fullByteSet()
			e.byteSets[v] = s
		}
		for x := uint64(0); x < 256; x++ {
			if s.has(x) && !pred(x) {
				s[x>>6] &^= 1 << (x & 63)
			}
		}
		return
	}
	for _, v := range termVars(t) {
		if v.W == 8 && v.Sort == SBV {
			e.complexVars[v] = true
		}
	}
}

// byteBranch decides a branch that is simple over an independent byte variable.
// ok=false: not applicable.
func (e *Explorer) byteBranch(cond *Term) (canTrue, canFalse bool, v *Term, tv, fv uint64, ok bool) {
	v, pred := simpleOver(cond)
	if v == nil || e.complexVars[v] {
		return false, false, nil, 0, 0, false
	}
	s := e.byteSets[v]
	if s == nil {
		s = fullByteSet()
	}
	for x := uint64(0); x < 256; x++ {
		if !s.has(x) {
			continue
		}
		if pred(x) {
			if !canTrue {
				canTrue, tv = true, x
			}
		} else if !canFalse {
			canFalse, fv = true, x
		}
		if canTrue && canFalse {
			break
		}
	}
	return canTrue, canFalse, v, tv, fv, true
}
