// gosym: bounded symbolic execution of Go SSA with an SMT solver.
//
//	gosym run      -repo R -harness-dir H -entries a.B,c.D [-workers N] [-out f.json]
//	gosym worker   (internal; same load flags, JSON requests on stdin)
//	gosym concrete -entry a.B -inputs f.json
package main

import (
	"bufio"
	"encoding/json"
	"flag"
	"fmt"
	"go/ast"
	"go/parser"
	"go/token"
	"go/types"
	"os"
	"os/exec"
	"path/filepath"
	"sort"
	"strings"
	"sync"
	"time"

	"golang.org/x/tools/go/packages"
	"golang.org/x/tools/go/ssa"
	"golang.org/x/tools/go/ssa/ssautil"

	"verif/engine/interp"
)

const modPath = "github.com/wader/fq"

type loadFlags struct {
	repo       string
	harnessDir string
	entries    string
	extraPkgs  string
	solver     string
	timeoutMs  int
	maxSteps   int64
	splitMax   int
	solverLog  string
	trace      bool
	gojqShim   bool
}

func (lf *loadFlags) register(fs *flag.FlagSet) {
	fs.StringVar(&lf.repo, "repo", "/repo", "repository root")
	fs.StringVar(&lf.harnessDir, "harness-dir", "/verif/harness", "harness sources")
	fs.StringVar(&lf.entries, "entries", "", "comma separated harness entries: relpkg.Func")
	fs.StringVar(&lf.extraPkgs, "pkgs", "", "extra packages to load (relative)")
	fs.StringVar(&lf.solver, "solver", "z3", "solver binary")
	fs.IntVar(&lf.timeoutMs, "solver-timeout-ms", 10000, "per query timeout")
	fs.Int64Var(&lf.maxSteps, "max-steps", 2_000_000, "SSA instructions per path")
	fs.IntVar(&lf.splitMax, "split-max", 70, "max values of a case split")
	fs.StringVar(&lf.solverLog, "solver-log", "", "write SMT-LIB traffic to file")
	fs.BoolVar(&lf.trace, "trace", false, "trace interpreter")
}

func (lf *loadFlags) args() []string {
	return []string{"-repo", lf.repo, "-harness-dir", lf.harnessDir, "-entries", lf.entries, "-pkgs", lf.extraPkgs,
		"-solver", lf.solver, "-solver-timeout-ms", fmt.Sprint(lf.timeoutMs), "-max-steps", fmt.Sprint(lf.maxSteps),
		"-split-max", fmt.Sprint(lf.splitMax)}
}

func (lf *loadFlags) opts() interp.Options {
	return interp.Options{SolverBin: lf.solver, TimeoutMs: lf.timeoutMs, MaxSteps: lf.maxSteps, SplitMax: lf.splitMax, SolverLog: lf.solverLog, Trace: lf.trace}
}

type entry struct {
	rel  string // relative package dir
	fn   string
	full string // rel.fn
}

func parseEntries(s string) []entry {
	var es []entry
	for _, e := range strings.Split(s, ",") {
		e = strings.TrimSpace(e)
		if e == "" {
			continue
		}
		i := strings.LastIndex(e, ".")
		es = append(es, entry{rel: e[:i], fn: e[i+1:], full: e})
	}
	return es
}

// buildOverlay maps harness files into the repository tree.
func buildOverlay(lf *loadFlags, rels []string) (map[string][]byte, error) {
	ov := map[string][]byte{}
	hdirs := strings.Split(lf.harnessDir, ",")
	vrtSrc, err := os.ReadFile(filepath.Join(hdirs[0], "vrt", "vrt.go"))
	if err != nil {
		return nil, err
	}
	ov[filepath.Join(lf.repo, "internal", "zzvrt", "vrt.go")] = vrtSrc
	_ = rels
	// every harness file is overlaid (harnesses of one package may use exported
	// helpers of another package's harness file)
	for _, hdir := range hdirs {
		hdir := hdir
		err = filepath.Walk(hdir, func(p string, info os.FileInfo, err error) error {
			if err != nil || info.IsDir() || !strings.HasSuffix(p, ".go") || strings.HasSuffix(p, "_test.go") {
				return nil
			}
			rel, _ := filepath.Rel(hdir, filepath.Dir(p))
			if rel == "vrt" || rel == "." || strings.HasPrefix(rel, "_") {
				return nil
			}
			b, err := os.ReadFile(p)
			if err != nil {
				return err
			}
			ov[filepath.Join(lf.repo, rel, "zz_verif_"+filepath.Base(p))] = b
			return nil
		})
		if err != nil {
			return nil, err
		}
	}
	return ov, nil
}

type loaded struct {
	prog   *ssa.Program
	pkgs   []*ssa.Package
	byPath map[string]*ssa.Package
	loadS  float64
}

func load(lf *loadFlags) (*loaded, error) {
	start := time.Now()
	es := parseEntries(lf.entries)
	relSet := map[string]bool{}
	for _, e := range es {
		relSet[e.rel] = true
	}
	for _, p := range strings.Split(lf.extraPkgs, ",") {
		if p = strings.TrimSpace(p); p != "" {
			relSet[p] = true
		}
	}
	var rels []string
	for r := range relSet {
		rels = append(rels, r)
	}
	sort.Strings(rels)
	ov, err := buildOverlay(lf, rels)
	if err != nil {
		return nil, err
	}
	patterns := []string{modPath + "/internal/zzvrt"}
	for _, r := range rels {
		patterns = append(patterns, modPath+"/"+r)
	}
	cfg := &packages.Config{
		Mode:       packages.LoadAllSyntax,
		Dir:        lf.repo,
		Overlay:    ov,
		BuildFlags: []string{"-tags=math_big_pure_go"},
		Env:        append(os.Environ(), "GOFLAGS=-mod=mod", "GOPROXY=off", "GOSUMDB=off", "GOTOOLCHAIN=local", "CGO_ENABLED=0"),
	}
	pkgs, err := packages.Load(cfg, patterns...)
	if err != nil {
		return nil, err
	}
	nerr := 0
	packages.Visit(pkgs, nil, func(p *packages.Package) {
		for _, e := range p.Errors {
			if nerr < 20 {
				fmt.Fprintf(os.Stderr, "load error: %s: %v\n", p.PkgPath, e)
			}
			nerr++
		}
	})
	if nerr > 0 {
		return nil, fmt.Errorf("%d package load errors (harness no longer compiles against the tree?)", nerr)
	}
	prog, spkgs := ssautil.AllPackages(pkgs, ssa.InstantiateGenerics)
	prog.Build()
	l := &loaded{prog: prog, byPath: map[string]*ssa.Package{}}
	for _, sp := range spkgs {
		if sp != nil {
			l.pkgs = append(l.pkgs, sp)
			l.byPath[sp.Pkg.Path()] = sp
		}
	}
	l.loadS = time.Since(start).Seconds()
	return l, nil
}

func (l *loaded) lookup(e entry) (*ssa.Function, error) {
	sp := l.byPath[modPath+"/"+e.rel]
	if sp == nil {
		return nil, fmt.Errorf("package %s not loaded", e.rel)
	}
	fn := sp.Func(e.fn)
	if fn == nil {
		return nil, fmt.Errorf("no function %s in %s", e.fn, e.rel)
	}
	return fn, nil
}

// ---------------- worker ----------------

type request struct {
	Entry    string            `json:"entry"`
	Items    []interp.WorkItem `json:"items"`
	BudgetMs int               `json:"budget_ms"`
}

type response struct {
	Entry      string                `json:"entry"`
	Result     *interp.ExploreResult `json:"result,omitempty"`
	Err        string                `json:"err,omitempty"`
	Ready      bool                  `json:"ready,omitempty"`
	InitFailed []string              `json:"init_failed,omitempty"`
	LoadS      float64               `json:"load_s,omitempty"`
}

func setup(lf *loadFlags) (*loaded, *interp.Engine, map[string]*ssa.Function, error) {
	l, err := load(lf)
	if err != nil {
		return nil, nil, nil, err
	}
	eng, err := interp.NewEngine(l.prog, lf.opts())
	if err != nil {
		return nil, nil, nil, err
	}
	fns := map[string]*ssa.Function{}
	var initPkgs []*ssa.Package
	seen := map[*ssa.Package]bool{}
	for _, e := range parseEntries(lf.entries) {
		fn, err := l.lookup(e)
		if err != nil {
			return nil, nil, nil, err
		}
		fns[e.full] = fn
		if !seen[fn.Pkg] {
			seen[fn.Pkg] = true
			initPkgs = append(initPkgs, fn.Pkg)
		}
	}
	eng.InitPackages(initPkgs)
	return l, eng, fns, nil
}

func workerMain(args []string) {
	fs := flag.NewFlagSet("worker", flag.ExitOnError)
	var lf loadFlags
	lf.register(fs)
	fs.Parse(args)
	out := json.NewEncoder(os.Stdout)
	l, eng, fns, err := setup(&lf)
	if err != nil {
		out.Encode(response{Err: err.Error()})
		os.Exit(3)
	}
	out.Encode(response{Ready: true, InitFailed: eng.InitFailed(), LoadS: l.loadS})
	in := bufio.NewReaderSize(os.Stdin, 1<<20)
	dec := json.NewDecoder(in)
	for {
		var req request
		if err := dec.Decode(&req); err != nil {
			return
		}
		fn := fns[req.Entry]
		if fn == nil {
			out.Encode(response{Entry: req.Entry, Err: "unknown entry"})
			continue
		}
		res, err := eng.Explore(fn, req.Items, time.Duration(req.BudgetMs)*time.Millisecond, lf.opts())
		if err != nil {
			out.Encode(response{Entry: req.Entry, Err: err.Error()})
			continue
		}
		out.Encode(response{Entry: req.Entry, Result: res})
	}
}

// ---------------- coordinator ----------------

type harnessAcc struct {
	Entry      string             `json:"entry"`
	Stats      interp.Stats       `json:"stats"`
	Violations []interp.Violation `json:"violations"`
	Queries    int                `json:"queries"`
	QSat       int                `json:"q_sat"`
	QUnsat     int                `json:"q_unsat"`
	QUnknown   int                `json:"q_unknown"`
	SolverS    float64            `json:"solver_s"`
	CpuS       float64            `json:"cpu_s"`
	Exhausted  bool               `json:"exhausted"`
	pending    int
}

func (a *harnessAcc) merge(r *interp.ExploreResult) {
	s := &a.Stats
	s.Paths += r.Stats.Paths
	s.PathsDone += r.Stats.PathsDone
	s.PathsInfeas += r.Stats.PathsInfeas
	s.Branches += r.Stats.Branches
	s.Splits += r.Stats.Splits
	s.AssertQueries += r.Stats.AssertQueries
	s.Steps += r.Stats.Steps
	if r.Stats.MaxSteps > s.MaxSteps {
		s.MaxSteps = r.Stats.MaxSteps
	}
	for k, v := range r.Stats.Asserts {
		s.Asserts[k] += v
	}
	for k, v := range r.Stats.Funcs {
		s.Funcs[k] += v
	}
	for k, v := range r.Stats.Stubs {
		s.Stubs[k] += v
	}
	for k, v := range r.Stats.Assumes {
		s.Assumes[k] += v
	}
	for k, v := range r.Stats.Covers {
		c := s.Covers[k]
		if c == nil {
			c = &interp.CoverInfo{}
			s.Covers[k] = c
		}
		c.Reached += v.Reached
		c.Witness += v.Witness
	}
	for _, o := range r.Stats.Observes {
		if len(s.Observes) < 40 {
			s.Observes = append(s.Observes, o)
		}
	}
	for _, sm := range r.Stats.Samples {
		if len(s.Samples) < 4 {
			s.Samples = append(s.Samples, sm)
		}
	}
	for _, w := range r.Stats.Inconclusive {
		found := false
		for _, x := range s.Inconclusive {
			if x == w {
				found = true
			}
		}
		if !found && len(s.Inconclusive) < 40 {
			s.Inconclusive = append(s.Inconclusive, w)
		}
	}
	for _, v := range r.Violations {
		dup := false
		for _, x := range a.Violations {
			if x.Kind == v.Kind && x.Msg == v.Msg && x.Known == v.Known {
				dup = true
			}
		}
		if !dup && len(a.Violations) < 12 {
			a.Violations = append(a.Violations, v)
		}
	}
	a.Queries += r.Solver.Queries
	a.QSat += r.Solver.Sat
	a.QUnsat += r.Solver.Unsat
	a.QUnknown += r.Solver.Unknown
	a.SolverS += r.Solver.TimeS
	a.CpuS += r.WallS
}

type workItem struct {
	entry string
	item  interp.WorkItem
}

type workerProc struct {
	id    int
	cmd   *exec.Cmd
	in    *json.Encoder
	out   *json.Decoder
	stdin interface{ Close() error }
}

func startWorker(id int, lf *loadFlags) (*workerProc, *response, error) {
	exe, _ := os.Executable()
	cmd := exec.Command(exe, append([]string{"worker"}, lf.args()...)...)
	cmd.Stderr = os.Stderr
	stdin, err := cmd.StdinPipe()
	if err != nil {
		return nil, nil, err
	}
	stdout, err := cmd.StdoutPipe()
	if err != nil {
		return nil, nil, err
	}
	if err := cmd.Start(); err != nil {
		return nil, nil, err
	}
	w := &workerProc{id: id, cmd: cmd, in: json.NewEncoder(stdin), out: json.NewDecoder(bufio.NewReaderSize(stdout, 1<<20)), stdin: stdin}
	var r response
	if err := w.out.Decode(&r); err != nil {
		return nil, nil, fmt.Errorf("worker %d start: %v", id, err)
	}
	if r.Err != "" {
		return nil, nil, fmt.Errorf("worker %d: %s", id, r.Err)
	}
	return w, &r, nil
}

type runOutput struct {
	Harnesses  []*harnessAcc `json:"harnesses"`
	InitFailed []string      `json:"init_failed"`
	LoadS      float64       `json:"load_s"`
	WallS      float64       `json:"wall_s"`
	Workers    int           `json:"workers"`
	TimedOut   bool          `json:"timed_out"`
	Errors     []string      `json:"errors,omitempty"`
}

func runMain(args []string) {
	fs := flag.NewFlagSet("run", flag.ExitOnError)
	var lf loadFlags
	lf.register(fs)
	workers := fs.Int("workers", 16, "worker processes")
	outPath := fs.String("out", "", "result JSON")
	wallLimit := fs.Duration("wall", 0, "overall time limit (0 = none)")
	fs.Parse(args)
	start := time.Now()
	es := parseEntries(lf.entries)
	if len(es) == 0 {
		fmt.Fprintln(os.Stderr, "no entries")
		os.Exit(2)
	}
	out := &runOutput{Workers: *workers}
	accs := map[string]*harnessAcc{}
	for _, e := range es {
		a := &harnessAcc{Entry: e.full}
		a.Stats.Asserts = map[string]int{}
		a.Stats.Funcs = map[string]int{}
		a.Stats.Stubs = map[string]int{}
		a.Stats.Assumes = map[string]int{}
		a.Stats.Covers = map[string]*interp.CoverInfo{}
		accs[e.full] = a
		out.Harnesses = append(out.Harnesses, a)
	}

	var mu sync.Mutex
	cond := sync.NewCond(&mu)
	// one DFS stack per harness, served round robin so that no harness starves
	queues := map[string][]interp.WorkItem{}
	var order []string
	qlen := 0
	rr := 0
	for _, e := range es {
		queues[e.full] = []interp.WorkItem{{}}
		order = append(order, e.full)
		accs[e.full].pending++
		qlen++
	}
	busy := 0
	stop := false
	procs := map[int]*os.Process{}
	nw := *workers
	if nw > 64 {
		nw = 64
	}
	var wg sync.WaitGroup
	for id := 0; id < nw; id++ {
		wg.Add(1)
		go func(id int) {
			defer wg.Done()
			w, ready, err := startWorker(id, &lf)
			if err != nil {
				mu.Lock()
				out.Errors = append(out.Errors, err.Error())
				mu.Unlock()
				return
			}
			mu.Lock()
			procs[id] = w.cmd.Process
			if id == 0 || out.LoadS == 0 {
				out.InitFailed = ready.InitFailed
				out.LoadS = ready.LoadS
			}
			mu.Unlock()
			defer func() {
				w.stdin.Close()
				w.cmd.Wait()
			}()
			for {
				mu.Lock()
				for qlen == 0 && busy > 0 && !stop {
					cond.Wait()
				}
				if stop || (qlen == 0 && busy == 0) {
					mu.Unlock()
					cond.Broadcast()
					return
				}
				// next non-empty harness in rotation; a few items from the end of its stack (DFS order)
				var it workItem
				for k := 0; k < len(order); k++ {
					name := order[(rr+k)%len(order)]
					if q := queues[name]; len(q) > 0 {
						it = workItem{name, q[len(q)-1]}
						queues[name] = q[:len(q)-1]
						qlen--
						rr = (rr + k + 1) % len(order)
						break
					}
				}
				items := []interp.WorkItem{it.item}
				for q := queues[it.entry]; len(items) < 4 && len(q) > nw; q = queues[it.entry] {
					items = append(items, q[len(q)-1])
					queues[it.entry] = q[:len(q)-1]
					qlen--
				}
				busy++
				budget := 400
				if qlen > 4*nw {
					budget = 3000
				}
				mu.Unlock()

				err := w.in.Encode(request{Entry: it.entry, Items: items, BudgetMs: budget})
				var resp response
				if err == nil {
					// watchdog: a worker that does not answer is killed (its items are lost: inconclusive)
					done := make(chan struct{})
					deadline := time.Duration(budget)*time.Millisecond + 20*time.Duration(lf.timeoutMs)*time.Millisecond + 180*time.Second
					go func(p *os.Process) {
						select {
						case <-done:
						case <-time.After(deadline):
							p.Kill()
						}
					}(w.cmd.Process)
					err = w.out.Decode(&resp)
					close(done)
				}
				mu.Lock()
				busy--
				acc := accs[it.entry]
				acc.pending -= len(items)
				if err != nil || resp.Err != "" {
					msg := resp.Err
					if err != nil {
						msg = "worker died: " + err.Error()
					}
					if !stop { // (after the time limit workers are killed on purpose)
						acc.Stats.Inconclusive = append(acc.Stats.Inconclusive, "worker failure: "+msg)
					}
					mu.Unlock()
					cond.Broadcast()
					if err != nil {
						// respawn
						w.cmd.Process.Kill()
						w.cmd.Wait()
						mu.Lock()
						stopped := stop
						mu.Unlock()
						if stopped {
							return
						}
						nwk, _, e2 := startWorker(id, &lf)
						if e2 != nil {
							return
						}
						w = nwk
						mu.Lock()
						procs[id] = w.cmd.Process
						mu.Unlock()
					}
					continue
				}
				acc.merge(resp.Result)
				for _, lo := range resp.Result.Leftover {
					queues[it.entry] = append(queues[it.entry], lo)
					qlen++
					acc.pending++
				}
				mu.Unlock()
				cond.Broadcast()
			}
		}(id)
	}
	if *wallLimit > 0 {
		go func() {
			time.Sleep(*wallLimit)
			mu.Lock()
			stop = true
			out.TimedOut = true
			for _, p := range procs {
				p.Kill() // out of time: in-flight requests are abandoned (their items stay unexplored)
			}
			mu.Unlock()
			cond.Broadcast()
		}()
	}
	wg.Wait()
	mu.Lock()
	for _, a := range out.Harnesses {
		a.Exhausted = a.pending == 0
		if a.pending != 0 {
			a.Stats.Inconclusive = append(a.Stats.Inconclusive, fmt.Sprintf("time budget: %d work items unexplored", a.pending))
		}
	}
	mu.Unlock()
	out.WallS = time.Since(start).Seconds()
	b, _ := json.MarshalIndent(out, "", " ")
	if *outPath != "" {
		os.WriteFile(*outPath, b, 0o644)
	} else {
		os.Stdout.Write(b)
	}
	// human summary
	for _, a := range out.Harnesses {
		fmt.Fprintf(os.Stderr, "%-50s paths=%d done=%d infeas=%d queries=%d solver=%.1fs viol=%d inconcl=%d\n",
			a.Entry, a.Stats.Paths, a.Stats.PathsDone, a.Stats.PathsInfeas, a.Queries, a.SolverS, len(a.Violations), len(a.Stats.Inconclusive))
		for _, w := range a.Stats.Inconclusive {
			fmt.Fprintf(os.Stderr, "    inconclusive: %s\n", w)
		}
		for _, v := range a.Violations {
			fmt.Fprintf(os.Stderr, "    violation: %s %s known=%q\n", v.Kind, v.Msg, v.Known)
		}
	}
}

func concreteMain(args []string) {
	fs := flag.NewFlagSet("concrete", flag.ExitOnError)
	var lf loadFlags
	lf.register(fs)
	inputs := fs.String("inputs", "", "JSON file {\"model\":{name:value}}")
	fs.Parse(args)
	_, eng, fns, err := setup(&lf)
	if err != nil {
		fmt.Fprintln(os.Stderr, err)
		os.Exit(3)
	}
	var rf struct {
		Model map[string]uint64 `json:"model"`
	}
	if *inputs != "" {
		b, err := os.ReadFile(*inputs)
		if err != nil {
			fmt.Fprintln(os.Stderr, err)
			os.Exit(3)
		}
		json.Unmarshal(b, &rf)
	}
	for name, fn := range fns {
		res := eng.RunConcrete(fn, rf.Model, lf.opts())
		b, _ := json.MarshalIndent(map[string]interface{}{"entry": name, "result": res, "init_failed": eng.InitFailed()}, "", " ")
		os.Stdout.Write(b)
		fmt.Println()
	}
}

// listMain prints the Verif* entry points found in the harness directory.
func listMain(args []string) {
	fs := flag.NewFlagSet("list", flag.ExitOnError)
	dir := fs.String("harness-dir", "/verif/harness", "")
	fs.Parse(args)
	filepath.Walk(*dir, func(p string, info os.FileInfo, err error) error {
		if err != nil || info.IsDir() || !strings.HasSuffix(p, ".go") {
			return nil
		}
		fset := token.NewFileSet()
		f, err := parser.ParseFile(fset, p, nil, 0)
		if err != nil {
			return nil
		}
		rel, _ := filepath.Rel(*dir, filepath.Dir(p))
		for _, d := range f.Decls {
			if fd, ok := d.(*ast.FuncDecl); ok && fd.Recv == nil && strings.HasPrefix(fd.Name.Name, "Verif") && fd.Type.Params.NumFields() == 0 {
				fmt.Printf("%s.%s\n", rel, fd.Name.Name)
			}
		}
		return nil
	})
}

// methodsMain prints "name<TAB>signature" for every method of a named type of
// a package of the repository (from go/types of the current tree).
func methodsMain(args []string) {
	fs := flag.NewFlagSet("methods", flag.ExitOnError)
	repo := fs.String("repo", "/repo", "")
	pkg := fs.String("pkg", "", "relative package dir")
	typ := fs.String("type", "", "type name (empty: package level functions)")
	fs.Parse(args)
	cfg := &packages.Config{Mode: packages.NeedTypes | packages.NeedName | packages.NeedImports | packages.NeedDeps, Dir: *repo,
		Env: append(os.Environ(), "GOFLAGS=-mod=mod", "GOPROXY=off", "GOSUMDB=off", "GOTOOLCHAIN=local", "CGO_ENABLED=0")}
	pkgs, err := packages.Load(cfg, modPath+"/"+*pkg)
	if err != nil || len(pkgs) != 1 || len(pkgs[0].Errors) > 0 {
		fmt.Fprintln(os.Stderr, "load failed", err)
		os.Exit(3)
	}
	scope := pkgs[0].Types.Scope()
	if *typ == "" {
		for _, n := range scope.Names() {
			if f, ok := scope.Lookup(n).(*types.Func); ok {
				fmt.Printf("%s\t%s\n", n, types.TypeString(f.Type(), func(p *types.Package) string { return p.Name() }))
			}
		}
		return
	}
	obj := scope.Lookup(*typ)
	if obj == nil {
		fmt.Fprintln(os.Stderr, "no such type")
		os.Exit(3)
	}
	ms := types.NewMethodSet(types.NewPointer(obj.Type()))
	for i := 0; i < ms.Len(); i++ {
		f := ms.At(i).Obj().(*types.Func)
		fmt.Printf("%s\t%s\n", f.Name(), types.TypeString(f.Type(), func(p *types.Package) string { return p.Name() }))
	}
}

func main() {
	if len(os.Args) < 2 {
		fmt.Fprintln(os.Stderr, "usage: gosym run|worker|concrete|list ...")
		os.Exit(2)
	}
	switch os.Args[1] {
	case "run":
		runMain(os.Args[2:])
	case "worker":
		workerMain(os.Args[2:])
	case "concrete":
		concreteMain(os.Args[2:])
	case "list":
		listMain(os.Args[2:])
	case "methods":
		methodsMain(os.Args[2:])
	default:
		fmt.Fprintln(os.Stderr, "unknown command")
		os.Exit(2)
	}
}
