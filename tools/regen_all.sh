#!/bin/bash
# regen_all.sh P1 P2 ...: runs the quick check of each property against /repo, one after the other, logging exit codes
cd /verif
for p in "$@"; do s=$(date +%s); ./check $p > .work/regen_$p.log 2>&1; echo "$p exit=$? $(( $(date +%s) - s ))s" >> .work/regen.status; done
