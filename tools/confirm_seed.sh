#!/bin/bash
# confirm_seed.sh <worktree> <outdir> test <pkgdir> <TestRegex>   |   confirm_seed.sh <worktree> <outdir> sh
# Confirms a seeded change in a scratch worktree: demo passes clean, fails with the change, build ok, full suite passes with the change.
export GOFLAGS=-mod=mod GOPROXY=off GOSUMDB=off GOTOOLCHAIN=local
WT=$1; OUT=$2; KIND=$3; PKG=$4; RX=$5
cd $WT || exit 9
git checkout -- . ; git clean -fdq
rundemo() {
  if [ "$KIND" = test ]; then cp $OUT/demo_test.go $PKG/zz_demo_test.go; go test -vet=off -count=1 -run "$RX" ./$PKG/ > /tmp/demo_out.$$ 2>&1; rc=$?; rm -f $PKG/zz_demo_test.go
  else cp $OUT/demo.sh ./zz_demo.sh; sh ./zz_demo.sh $WT > /tmp/demo_out.$$ 2>&1; rc=$?; rm -f ./zz_demo.sh; fi
  return $rc
}
rundemo; clean_rc=$?
git apply $OUT/patch.diff; apply_rc=$?
go build ./... > /dev/null 2>&1; build_rc=$?
rundemo; mut_rc=$?; tail -5 /tmp/demo_out.$$ > $OUT/demo_mutant_tail.txt; rm -f /tmp/demo_out.$$
go test -vet=off -count=1 -timeout 25m ./... > $OUT/suite.log 2>&1; suite_rc=$?
fails=$(grep -c "^FAIL\|^--- FAIL" $OUT/suite.log)
git checkout -- . ; git clean -fdq
echo "apply=$apply_rc demo_clean_exit=$clean_rc build=$build_rc demo_mutant_exit=$mut_rc existing_tests_exit=$suite_rc fail_lines=$fails" | tee $OUT/confirmed.txt
