#!/usr/bin/env python3
"""install_seed.py <outdir> <seed-id> : copies a confirmed seeded change into /verif/seeded/<seed-id>/"""
import json, os, shutil, sys
out, sid = sys.argv[1], sys.argv[2]
d = os.path.join("/verif/seeded", sid)
os.makedirs(d, exist_ok=True)
for f in ("patch.diff", "demo_test.go", "demo.sh", "demo_cmd.txt"):
    if os.path.exists(os.path.join(out, f)):
        shutil.copy(os.path.join(out, f), os.path.join(d, f))
m = json.load(open(os.path.join(out, "meta.json")))
c = open(os.path.join(out, "confirmed.txt")).read().strip()
assert "demo_clean_exit=0" in c and "demo_mutant_exit=1" in c and "existing_tests_exit=0" in c and "build=0" in c and "apply=0" in c, c
m["confirmed_by_me"] = sid + ": " + c + " (scratch worktree, full go test ./... with the change; worktree removed afterwards)"
m["round"] = 3
json.dump(m, open(os.path.join(d, "meta.json"), "w"), indent=1)
print("installed", sid)
