#!/usr/bin/env python3
"""calibrate_c06.py OUT.json [format-regex]: for every registered format (enumerated from the tree)
find the input sizes N for which the generic no-crash harness explores its path space completely
within the per-run budget. Writes {format: {N: {exhausted, paths, wall_s, viol, inconcl}}}.
Development tool; the registered bounds are in harness/c06_bounds.json."""
import json, os, re, subprocess, sys, time, concurrent.futures as cf
VERIF = os.path.dirname(os.path.dirname(os.path.abspath(__file__)))
sys.path.insert(0, os.path.join(VERIF, "harness"))
import registry
GOENV = dict(os.environ, GOFLAGS="-mod=mod", GOPROXY="off", GOSUMDB="off", GOTOOLCHAIN="local", CGO_ENABLED="0")
LEVELS = [int(x) for x in os.environ.get("CAL_LEVELS", "4,6,8,12,16,24,32").split(",")]
BUDGET = int(os.environ.get("CAL_BUDGET", "45"))
gosym = os.environ.get("GOSYM", os.path.join(VERIF, "bin", "gosym"))
out = sys.argv[1]
rx = re.compile(sys.argv[2]) if len(sys.argv) > 2 else None
work = os.path.join(VERIF, ".work", "cal")
os.makedirs(work, exist_ok=True)
fmts = registry.c06_formats("/repo")

def one(rel, name):
    res = {}
    for n in LEVELS:
        gd = os.path.join(work, "g_%s_%d" % (name, n))
        registry.c06_emit(gd, [(rel, "", name, n, "VerifNoCrashGen_" + name)])
        rp = os.path.join(work, "r_%s_%d.json" % (name, n))
        t = time.time()
        subprocess.run([gosym, "run", "-repo", "/repo", "-harness-dir", os.path.join(VERIF, "harness") + "," + gd,
                        "-entries", "%s.VerifNoCrashGen_%s" % (rel, name), "-workers", "2", "-solver", "z3-new", "-out", rp,
                        "-wall", "%ds" % BUDGET, "-solver-timeout-ms", "10000", "-split-max", "300"], env=GOENV, capture_output=True, text=True)
        w = time.time() - t
        try:
            r = json.load(open(rp)); h = r["harnesses"][0]
            res[n] = {"exhausted": bool(h.get("exhausted")), "paths": h["stats"]["paths"], "wall_s": round(w, 1),
                      "viol": [v["kind"] + ": " + v["msg"][:200] for v in (h["violations"] or [])],
                      "inconcl": (h["stats"].get("inconclusive") or [])[:3]}
        except Exception as e:
            res[n] = {"exhausted": False, "error": str(e)[:200], "wall_s": round(w, 1)}
        subprocess.run(["rm", "-rf", gd, rp])
        if not res[n].get("exhausted") or res[n].get("viol") or res[n].get("inconcl"):
            break
    return name, rel, res

allres = {}
todo = [(rel, name) for rel, name in fmts if not rx or rx.search(name)]
with cf.ThreadPoolExecutor(max_workers=int(os.environ.get("CAL_PAR", "6"))) as ex:
    for name, rel, res in ex.map(lambda a: one(*a), todo):
        allres[name] = {"rel": rel, "levels": res}
        print(name, json.dumps(res), flush=True)
        json.dump(allres, open(out, "w"), indent=1)
