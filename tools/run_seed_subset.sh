#!/bin/bash
# run_seed_subset.sh <seed-id> <worktree> <check-prop> <harness-regex> [tier]: like run_seed_wt.sh but runs only the named
# harnesses (VERIF_ONLY: writes no evidence) in a separate work directory, so it can run beside a regular check.
S=$1; WT=$2; CP=$3; RX=$4; TIER=${5:-quick}; D=/verif/seeded/$S
git -C $WT checkout -- . ; git -C $WT clean -fdq
git -C $WT apply $D/patch.diff || { echo "$S: patch does not apply"; exit 8; }
cd /verif && VERIF_WORKTAG=_seed VERIF_ONLY="$RX" ./check $CP --repo $WT --tier $TIER > $D/check.out 2>&1; rc=$?
git -C $WT checkout -- .
{ echo "check=$CP (harnesses matching $RX) exit=$rc"; grep "^VIOLATION\|^KNOWN-FINDING" $D/check.out | head -5; grep "INCONCLUSIVE" $D/check.out | head -3; } > $D/result.txt
rm -f $D/check.out; echo "$S: $(head -2 $D/result.txt | tr '\n' ' ')"
