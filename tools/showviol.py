import json, sys
r = json.load(open(sys.argv[1] if len(sys.argv) > 1 else '/tmp/r.json'))
for h in r['harnesses']:
    for v in h['violations'] or []:
        print(h['entry'].split('.')[-1], '|', v['kind'], '|', v['msg'], '|', v.get('known'), '|', {k: x for k, x in v['model'].items() if x})
