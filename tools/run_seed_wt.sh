#!/bin/bash
# run_seed_wt.sh <seed-id> <worktree> [check-prop]: applies the seeded change to a scratch worktree (not /repo),
# runs ./check <prop> --repo <worktree>, records the outcome in seeded/<id>/result.txt, restores the worktree.
# NOTE: overwrites evidence/<prop>.json with the mutant run; re-run the check on /repo before committing evidence.
S=$1; WT=$2; P=${S%%-*}; CP=${3:-$P}; D=/verif/seeded/$S
git -C $WT checkout -- . ; git -C $WT clean -fdq
git -C $WT apply $D/patch.diff || { echo "$S: patch does not apply" | tee $D/result.txt; exit 8; }
cd /verif && ./check $CP --repo $WT > $D/check.out 2>&1; rc=$?
git -C $WT checkout -- .
R=result.txt; [ "$CP" != "$P" ] && R=result_$CP.txt
{ echo "check=$CP exit=$rc"; grep "^VIOLATION\|^KNOWN-FINDING" $D/check.out | head -5; grep "INCONCLUSIVE" $D/check.out | head -3; } > $D/$R
grep -v "^pkg\|^format\|^internal\|^running\|conda" $D/check.out | tail -5 > $D/check.tail; rm -f $D/check.out
echo "$S: $(head -2 $D/$R | tr '\n' ' ')"
